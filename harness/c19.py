"""C19 — generated instances respect the requested shape and seed.

A case is a small scenario on one or more GeneralInstanceGenerator objects:

  params : list of [jlo, jhi, mlo, mhi, dlo, dhi, klo, khi, allow_less, recirc, suffix, limit, style]
           (limit -1 = None; suffix = index into SUFFIXES; style = 3 bits: pass num_jobs /
           num_machines / machines_per_operation as an int when lo == hi)
  events : [0, pidx, seed]            GeneralInstanceGenerator(**params[pidx], seed=seed)   (-1 = None)
           [1, i, oj, om]             gens[i].generate(num_jobs=oj, num_machines=om)        (-1 = None)
           [2, i] iter(gens[i])   [3, i] next(gens[i])   [4, i] list(gens[i])   (only with a limit)
           [5, n, reseed]             unrelated use of the random module (n draws; random.seed(reseed) if >= 0)
           [6, i, avail]              gens[i].create_random_operation(avail)                (-1 = None)
           [8, i, stream, target]     gens[i].generate() with the RNG FORCED to return `stream`, which
                                      spells out `target` (an instance of the requested shape)
  gseed  : seed of the module-level RNG at the start of the scenario.

The `random` name of the two generator modules is replaced by a recording proxy (module-level
functions and `random.Random(...)` instances created there), so that every draw the generators make
is logged with the RNG object that served it. The recorded draws drive the Coq model
(coq/model/Generator.v, commands 1901/1902), the extracted shape predicate is applied to the
implementation's instances (1903), names (1904).
"""
from __future__ import annotations

import random as _real_random

from . import common
from .framework import Check, Failure

SUFFIXES = ["classic_generated_instance", "g", "", "inst_7", "x_1"]
CLAUSES = ["jobs-in-range", "machines-in-range", "jobs-ge-machines", "jobs-same-length", "ids-below-M",
           "durations-in-range", "k-in-range", "machines-distinct", "permutation-without-recirculation"]


class ContractBreak(Exception):
    """The forced stream cannot be served: the code asked for something else."""

    def __init__(self, kind, value, pop):
        super().__init__(kind, value, pop)
        self.kind, self.value, self.pop = kind, value, pop


class _Rec:
    """Recording (or replaying) stand-in for a random.Random object / the random module."""

    def __init__(self, ctl, rid, target):
        self._ctl, self._rid, self._t = ctl, rid, target

    def _next_forced(self):
        ctl = self._ctl
        if not ctl.forced:
            raise ContractBreak(2, 0, [])
        return ctl.forced.pop(0)

    def randint(self, a, b):
        ctl = self._ctl
        if ctl.forced is not None:
            if b < a:
                raise ValueError("empty range for randint()")
            v = self._next_forced()
            if not a <= v <= b:
                raise ContractBreak(0, v, [a, b])
        else:
            v = self._t.randint(a, b)
        ctl.log.append([self._rid, int(v)])
        return v

    def choice(self, seq):
        ctl = self._ctl
        if ctl.forced is not None:
            if len(seq) == 0:
                raise IndexError("Cannot choose from an empty sequence")
            v = self._next_forced()
            if v not in seq:
                raise ContractBreak(1, v, [int(x) for x in seq])
        else:
            v = self._t.choice(seq)
        ctl.log.append([self._rid, int(v)])
        return v

    def seed(self, *a, **k):
        return self._t.seed(*a, **k)

    def __getattr__(self, name):
        # any other draw (sample, shuffle, randrange, random ...) is outside the modelled protocol
        self._ctl.unmodelled.append(name)
        return getattr(self._t, name)


class _Ctl(_Rec):
    """Stands for the `random` module inside the generator modules."""

    def __init__(self):
        super().__init__(self, 0, _real_random)
        self.log = []
        self.created = []
        self.unmodelled = []
        self.forced = None
        self._n = 0

    def Random(self, *a, **k):  # noqa: N802  (random.Random)
        self._n += 1
        self.created.append(self._n)
        return _Rec(self, self._n, _real_random.Random(*a, **k))


def _kwargs(p, seed):
    jlo, jhi, mlo, mhi, dlo, dhi, klo, khi, allow, recirc, suf, limit, style = p
    kw = dict(
        num_jobs=jlo if (style & 1 and jlo == jhi) else (jlo, jhi),
        num_machines=mlo if (style & 2 and mlo == mhi) else (mlo, mhi),
        duration_range=(dlo, dhi),
        allow_less_jobs_than_machines=bool(allow),
        allow_recirculation=bool(recirc),
        machines_per_operation=klo if (style & 4 and klo == khi) else (klo, khi),
        name_suffix=SUFFIXES[suf],
        seed=None if seed < 0 else seed,
        iteration_limit=None if limit < 0 else limit,
    )
    return kw


def _inst(instance):
    return [name_codes(instance.name), common.spec_of_instance(instance)]


def name_codes(s):
    return [ord(c) for c in s]


def model_params(p):
    jlo, jhi, mlo, mhi, dlo, dhi, klo, khi, allow, recirc, suf, limit, _ = p
    return [jlo, jhi, mlo, mhi, dlo, dhi, klo, khi, allow, recirc, name_codes(SUFFIXES[suf]),
            [] if limit < 0 else [limit]]


def opt(x):
    return [] if (x is None or (isinstance(x, int) and x < 0)) else [x]


def python_encode(p, target):
    """The stream that spells `target` out (cross-checked against the model's [encode])."""
    khi = p[7]
    s = [len(target), len(target[0]) if target else p[2]]
    for job in target:
        for ms, d in job:
            s.append(d)
            if khi > 1:
                s.append(len(ms))
            s.extend(ms)
    return s


def random_target(rng, p):
    """An instance of the shape requested by the (well-formed) record p."""
    jlo, jhi, mlo, mhi, dlo, dhi, klo, khi, allow, recirc = p[:10]
    J = rng.randint(jlo if allow else max(jlo, mlo), jhi)
    M = rng.randint(mlo, mhi if allow else min(J, mhi))
    jobs = []
    for _ in range(J):
        perm = list(range(M))
        rng.shuffle(perm)
        job = []
        for q in range(M):
            d = rng.randint(dlo, dhi)
            if khi > 1:
                ms = rng.sample(range(M), rng.randint(klo, khi))
            elif recirc:
                ms = [rng.randrange(M)]
            else:
                ms = [perm[q]]
            job.append([ms, d])
        jobs.append(job)
    return jobs


def is_wf(p):
    jlo, jhi, mlo, mhi, dlo, dhi, klo, khi, allow, recirc = p[:10]
    return (jlo <= jhi and mlo <= mhi and dlo <= dhi and 1 <= klo <= khi
            and (khi <= 1 or khi <= mlo) and (allow or mlo <= jhi))


class C19(Check):
    pid = "C19"
    assumptions = [
        "parameter records satisfy wf_params (non-empty ranges, 1 <= k_min <= k_max, k_max <= min machines "
        "for flexible settings, max jobs >= min machines when fewer jobs than machines are disallowed); "
        "ranges are non-negative",
        "the generators draw only through randint/choice of the `random` name of their modules "
        "(module-level functions or random.Random instances created there); any other draw is reported",
    ]
    modelled_not_verified = [
        "modelled: GeneralInstanceGenerator.__init__/generate/create_random_operation/_choose_multiple_machines/"
        "_choose_one_machine, InstanceGenerator._next_name/__iter__/__next__ (coq/model/Generator.v, the "
        "REPAIRED code) — tied by differential execution under recorded draws, not verified",
        "`random`: only the contract randint(a,b) in [a,b], choice(l) in l, and 'equal seeds and equal calls "
        "give equal results' are used; the last one is validated by sampling (same-seed generators must "
        "record equal draws); statistical quality is not addressed",
    ]
    nontrivial_rule = ("a scenario is non-trivial when some generator produced an instance with >= 2 jobs and "
                       ">= 2 machines; distinct = distinct SHA1 of the whole case")

    def budget(self):
        return 6000 if self.tier == "quick" else 60000

    def search_budget(self):
        return 6000 if self.tier == "quick" else 40000

    # ------------------------------------------------------------------ generation
    def gen_params(self, rng, malformed=False):
        jlo = rng.choice([0, 1, 1, 2, 2, 3, 4])
        jhi = jlo + rng.choice([0, 0, 1, 2, 3])
        mlo = rng.choice([1, 1, 2, 2, 3, 4])
        mhi = mlo + rng.choice([0, 0, 1, 2, 3])
        dlo = rng.choice([0, 0, 1, 1, 2, 5])
        dhi = dlo + rng.choice([0, 1, 3, 9, 20, 98, 9000])
        allow = rng.choice([0, 0, 1])
        recirc = rng.choice([0, 0, 1])
        r = rng.random()
        if r < 0.45:
            klo = khi = 1
        else:
            khi = rng.randint(1, max(1, mlo))
            klo = rng.randint(1, khi)
        if not allow and mlo > jhi:
            if not malformed or rng.random() < 0.5:
                jhi = mlo + rng.choice([0, 1])
        if malformed:
            which = rng.randrange(5)
            if which == 0:
                khi = mhi + rng.choice([0, 1, 2])
                klo = rng.randint(1, khi)
            elif which == 1:
                allow = 0
                mlo = jhi + rng.choice([1, 2])
                mhi = mlo + rng.choice([0, 1])
                klo = khi = 1
            elif which == 2:
                jhi = max(0, jlo - 1) if jlo > 0 else jhi
                jlo = jhi + 1
            elif which == 3:
                klo, khi = 0, rng.choice([0, 1, 2])
            else:
                dlo, dhi = dhi + 1, dlo
        limit = rng.choice([-1, -1, 0, 1, 2, 3, 4])
        suf = rng.randrange(len(SUFFIXES))
        style = rng.randrange(8)
        return [jlo, jhi, mlo, mhi, dlo, dhi, klo, khi, allow, recirc, suf, limit, style]

    def use_event(self, rng, i, p, forced_ok=True):
        r = rng.random()
        limit = p[11]
        if r < 0.45:
            return [1, i, -1, -1]
        if r < 0.55 and forced_ok and is_wf(p):
            t = random_target(rng, p)
            return [8, i, python_encode(p, t), t]
        if r < 0.65:
            return [3, i]
        if r < 0.72 and limit >= 0:
            return [4, i]
        if r < 0.76:
            return [2, i]
        if r < 0.86:
            jlo, jhi, mlo, mhi = p[:4]
            oj = rng.choice([-1, rng.randint(max(0, jlo - 1), jhi + 1)])
            om = rng.choice([-1, rng.randint(max(0, mlo - 1), mhi + 1)])
            return [1, i, oj, om]
        if r < 0.93:
            M = rng.randint(1, 5)
            avail = rng.sample(range(M), rng.randint(0, M))
            return [6, i, rng.choice([-1, avail])]
        return [3, i]

    def gen_case(self, rng):
        kind = rng.choice(["twin-seq", "twin-alt", "twin-alt", "twin-other", "mixed", "mixed", "iter",
                           "forced", "malformed"])
        params = [self.gen_params(rng, malformed=(kind == "malformed"))]
        events = []
        p = params[0]
        if kind.startswith("twin"):
            seed = rng.randrange(1000)
            n = rng.randint(1, 4)
            uses = [self.use_event(rng, 0, p, forced_ok=False) for _ in range(n)]

            def for_gen(ev, i):
                return [ev[0], i] + ev[2:]
            other = lambda: [5, rng.randint(0, 3), rng.choice([-1, -1, seed, rng.randrange(1000)])]  # noqa: E731
            if kind == "twin-seq":
                events = [[0, 0, seed]] + uses + [[0, 0, seed]] + [for_gen(e, 1) for e in uses]
            elif kind == "twin-alt":
                events = [[0, 0, seed], [0, 0, seed]]
                order = rng.choice(["ab", "ba", "aab"])
                ia = ib = 0
                while ia < n or ib < n:
                    for c in order:
                        if c == "a" and ia < n:
                            events.append(uses[ia])
                            ia += 1
                        elif c == "b" and ib < n:
                            events.append(for_gen(uses[ib], 1))
                            ib += 1
            else:
                events = [[0, 0, seed]]
                for e in uses:
                    events.append(e)
                    if rng.random() < 0.6:
                        events.append(other())
                events.append(other())
                events.append([0, 0, seed])
                for e in uses:
                    if rng.random() < 0.6:
                        events.append(other())
                    events.append(for_gen(e, 1))
            if rng.random() < 0.3:
                # a seedless generator used in between as well
                params.append(self.gen_params(rng))
                k = rng.randrange(2, len(events) + 1)
                events.insert(k, [0, 1, -1])
                events.append([1, 2, -1, -1])
        elif kind in ("mixed", "malformed"):
            ng = rng.randint(1, 3)
            if rng.random() < 0.4:
                params.append(self.gen_params(rng, malformed=(kind == "malformed" and rng.random() < 0.5)))
            made = []
            for _ in range(rng.randint(3, 10)):
                if len(made) < ng and (not made or rng.random() < 0.3):
                    pidx = rng.randrange(len(params))
                    made.append(pidx)
                    events.append([0, pidx, rng.choice([-1, -1, rng.randrange(50)])])
                elif rng.random() < 0.12:
                    events.append([5, rng.randint(0, 3), rng.choice([-1, rng.randrange(50)])])
                else:
                    i = rng.randrange(len(made))
                    events.append(self.use_event(rng, i, params[made[i]]))
        elif kind == "iter":
            while p[11] < 0:
                p[11] = rng.choice([0, 1, 2, 3, 4, 5])
            events = [[0, 0, rng.choice([-1, rng.randrange(50)])]]
            for _ in range(rng.randint(1, 5)):
                events.append(rng.choice([[4, 0], [4, 0], [3, 0], [2, 0], [1, 0, -1, -1]]))
        else:  # forced
            while not is_wf(p):
                p = params[0] = self.gen_params(rng)
            events = [[0, 0, rng.choice([-1, rng.randrange(50)])]]
            for _ in range(rng.randint(1, 3)):
                t = random_target(rng, p)
                events.append([8, 0, python_encode(p, t), t])
                if rng.random() < 0.3:
                    events.append([1, 0, -1, -1])
        return {"kind": kind, "params": params, "events": events, "gseed": rng.randrange(10 ** 6)}

    def gen_cases(self, rng, n):
        cases = []
        for _ in range(n):
            c = self.gen_case(rng)
            cases.append(c)
            self.note("cases")
            self.note("kind_" + c["kind"])
            self.note("param_records", len(c["params"]))
            for p in c["params"]:
                self.note("p_wf" if is_wf(p) else "p_not_wf")
                self.note("p_flexible", 1 if p[7] > 1 else 0)
                self.note("p_recirculation", p[9])
                self.note("p_fewer_jobs_disallowed", 1 - p[8])
                self.note("p_tuple_ranges", 1 if (p[0] != p[1] or p[2] != p[3]) else 0)
                self.note("p_limit", 1 if p[11] >= 0 else 0)
            for e in c["events"]:
                self.note("ev_" + {0: "new", 1: "generate", 2: "iter", 3: "next", 4: "list", 5: "other",
                                   6: "create_op", 8: "forced"}[e[0]])
                if e[0] == 0 and e[2] >= 0:
                    self.note("ev_new_seeded")
        return cases

    # ------------------------------------------------------------------ implementation
    def run_impl(self, case):
        common.import_impl()
        import importlib

        from job_shop_lib.exceptions import ValidationError

        mod_g = importlib.import_module("job_shop_lib.generation._general_instance_generator")
        mod_b = importlib.import_module("job_shop_lib.generation._instance_generator")
        ctl = _Ctl()
        saved = [(m, m.__dict__.get("random", None), "random" in m.__dict__) for m in (mod_g, mod_b)]
        state = _real_random.getstate()
        for m in (mod_g, mod_b):
            m.random = ctl
        _real_random.seed(case["gseed"])
        gens = []
        own = []
        out_events = []

        def code(e):
            if isinstance(e, ContractBreak):
                return [7, e.kind, int(e.value), e.pop]
            if isinstance(e, ValidationError):
                return [5, 1]
            if isinstance(e, IndexError):
                return [5, 3]
            return [5, 4]

        try:
            for ev in case["events"]:
                k0 = len(ctl.log)
                c0 = len(ctl.created)
                kind = ev[0]
                try:
                    if kind == 0:
                        g = mod_g.GeneralInstanceGenerator(**_kwargs(case["params"][ev[1]], ev[2]))
                        gens.append((g, ev[1]))
                        own.append(list(ctl.created[c0:]))
                        out = [0]
                    elif kind == 5:
                        for _ in range(ev[1]):
                            _real_random.random()
                        if ev[2] >= 0:
                            _real_random.seed(ev[2])
                        out = [0]
                    elif ev[1] >= len(gens):
                        out = [6]
                    else:
                        g, pidx = gens[ev[1]]
                        if kind == 1:
                            inst = g.generate(num_jobs=None if ev[2] < 0 else ev[2],
                                              num_machines=None if ev[3] < 0 else ev[3])
                            out = [1] + _inst(inst)
                        elif kind == 8:
                            ctl.forced = list(ev[2])
                            try:
                                inst = g.generate()
                            finally:
                                left = len(ctl.forced)
                                ctl.forced = None
                            out = [1] + _inst(inst) + [left]
                        elif kind == 2:
                            iter(g)
                            out = [0]
                        elif kind == 3:
                            try:
                                out = [1] + _inst(next(g))
                            except StopIteration:
                                out = [4]
                        elif kind == 4:
                            if case["params"][pidx][11] < 0:
                                iter(g)        # list() would not end; only __iter__
                                out = [0]
                            else:
                                out = [2, [_inst(x) for x in list(g)]]
                        elif kind == 6:
                            avail = None if ev[2] == -1 else list(ev[2])
                            op = g.create_random_operation(avail)
                            out = [3, [list(op.machines), int(op.duration)], [] if avail is None else [avail]]
                        else:
                            out = [6]
                except Exception as e:  # pylint: disable=broad-except
                    out = code(e)
                out_events.append([common.norm(out), [list(d) for d in ctl.log[k0:]]])
        finally:
            for m, old, had in saved:
                if had:
                    m.random = old
                else:
                    del m.random
            _real_random.setstate(state)
        return [out_events, own, sorted(set(ctl.unmodelled))]

    # ------------------------------------------------------------------ model
    @classmethod
    def _walk(cls, case, obs):
        """Yields (idx, ev, out, draws, i, p, cnt): i = generator index if it exists when the event
        happens (else None), p = its parameter record, cnt = number of names it has handed out so far
        (None when unknown: a list(gen) that raised may have generated some instances before)."""
        live = []
        cnts = []
        for idx, (ev, (out, draws)) in enumerate(zip(case["events"], obs[0])):
            if ev[0] == 0:
                if out == [0]:
                    live.append((ev[1], ev[2]))
                    cnts.append(0)
                yield idx, ev, out, draws, None, None, None
            elif ev[0] == 5 or ev[1] >= len(live):
                yield idx, ev, out, draws, None, None, None
            else:
                i = ev[1]
                p = case["params"][live[i][0]]
                yield idx, ev, out, draws, i, p, cnts[i]
                if cnts[i] is not None:
                    cnts[i] += len(cls._instances(out))
                if ev[0] == 4 and p[11] >= 0 and out[0] != 2:
                    cnts[i] = None

    @staticmethod
    def _live(case, obs):
        return [(ev[1], ev[2]) for ev, (out, _) in zip(case["events"], obs[0]) if ev[0] == 0 and out == [0]]

    @staticmethod
    def _action(ev, p):
        k = ev[0]
        if k == 1:
            return [0, opt(ev[2]), opt(ev[3])]
        if k == 8:
            return [0, [], []]
        if k == 2:
            return [1]
        if k == 3:
            return [2]
        if k == 4:
            return [3, p[11] + 1] if p[11] >= 0 else [1]
        return [4, [] if ev[2] == -1 else [ev[2]]]

    @staticmethod
    def _instances(out):
        if out and out[0] == 1:
            return [(out[1], out[2])]
        if out and out[0] == 2:
            return [(x[0], x[1]) for x in out[1]]
        return []

    @staticmethod
    def _effective(p, ev):
        """The record whose shape an explicit generate(num_jobs, num_machines) call must respect."""
        q = list(p)
        if ev[0] == 1:
            if ev[2] >= 0:
                q[0] = q[1] = ev[2]
            if ev[3] >= 0:
                q[2] = q[3] = ev[3]
        return q

    def model_requests(self, case, obs):
        evs, own, _ = obs
        nlive = len(self._live(case, obs))
        mparams = [model_params(p) for p in case["params"]]
        glob = [v for _, draws in evs for rid, v in draws if rid == 0]
        own_streams = [[v for _, draws in evs for rid, v in draws if rid in rids] for rids in own]
        mevents, calls, shapes, targets = [], [], [], []
        names = [[] for _ in range(nlive)]
        k = 0
        gi = 0
        for idx, ev, out, draws, i, p, cnt in self._walk(case, obs):
            kind = ev[0]
            if kind == 0:
                if out == [0]:
                    mevents.append([0, ev[1], [own_streams[gi]] if ev[2] >= 0 else [], k])
                    gi += 1
                else:
                    mevents.append([0, ev[1], [], k])
            elif kind == 5:
                mevents.append([2, k])
            elif i is None:
                mevents.append([1, ev[1], [1]])
            else:
                act = self._action(ev, p)
                mevents.append([1, i, act])
                if kind in (1, 6, 8):
                    calls.append([model_params(p), cnt or 0, 0, act, [v for _, v in draws]])
                if kind == 8:
                    targets.append([model_params(p), ev[3]])
                for name, inst in self._instances(out):
                    names[i].append(name)
                    shapes.append([model_params(self._effective(p, ev)), inst])
            k += sum(1 for rid, _ in draws if rid == 0)
        return [(1901, [mparams, glob, mevents]), (1902, calls), (1903, shapes),
                (1904, [names, mparams + [s[0] for s in shapes]]), (1903, targets), (1905, targets)]

    # ------------------------------------------------------------------ judgement
    def judge(self, case, obs, outs):
        evs, own, unmodelled = obs
        scen, calls, shapes, nameres, tshapes, tenc = outs
        live = self._live(case, obs)
        fails = []
        if unmodelled:
            fails.append(Failure("tie", "unmodelled-draw",
                                 f"the generator drew through random.{unmodelled} (not randint/choice)"))
        # --- tie 1: the whole scenario on the world model
        model_outs, glob_left, own_left = scen
        impl_outs = []
        for ev, (out, _) in zip(case["events"], evs):
            o = list(out)
            if ev[0] == 8 and o and o[0] == 1:
                o = o[:3]
            elif o and o[0] == 7:
                o = [7]
            impl_outs.append(o)
        for idx, (a, b) in enumerate(zip(impl_outs, model_outs)):
            if a != b:
                fails.append(Failure("tie", "scenario", f"event #{idx} {self._short(case['events'][idx])}: "
                                     "implementation and model (world of generators) differ",
                                     expected=b, observed=a))
                break
        else:
            if glob_left != 0 or any(x != 0 for x in own_left):
                fails.append(Failure("tie", "scenario-draws", "draws recorded but not consumed by the model",
                                     expected=0, observed=[glob_left, own_left]))
        # --- tie 2 (single calls under the draws recorded during the call) and the oracles
        ci = si = ti = 0
        per_gen_outs = [[] for _ in live]
        for idx, ev, out, draws, i, p, cnt in self._walk(case, obs):
            if i is None:
                continue
            kind = ev[0]
            if kind in (1, 6, 8):
                mo, left, _, _ = calls[ci]
                ci += 1
                a = impl_outs[idx]
                if cnt is None and a and mo and a[0] == 1 and mo[0] == 1:
                    a, mo = [1, a[2]], [1, mo[2]]       # counter unknown: compare the instance only
                if a != mo or left != 0:
                    fails.append(Failure("tie", "single-call", f"event #{idx} {self._short(ev)}: the model under "
                                         "the recorded draws differs from the implementation",
                                         expected=[mo, left], observed=[a, 0]))
            if kind == 8:
                # the target has the requested shape (extracted predicate), its stream is the model's
                # [encode], and the implementation driven by that stream must produce it
                tcl, tstream = tshapes[ti], tenc[ti]
                ti += 1
                if not all(tcl) or tstream != ev[2]:
                    fails.append(Failure("tie", "forced-target", "harness target is not of the requested shape "
                                         "or its stream differs from the model's encode",
                                         expected=tstream, observed=[tcl, ev[2]]))
                elif out[0] == 7 and out[1] == 1:
                    fails.append(Failure(
                        "oracle", "machines-drawn-from-all-M",
                        f"event #{idx}: machine {out[2]} of an operation of a well-shaped target with "
                        f"M = {len(ev[3][0]) if ev[3] else 0} can never be chosen: the code draws that "
                        f"operation's machines from {out[3]}", expected=ev[3], observed=out))
                elif out[0] != 1 or out[2] != ev[3] or out[3] != 0:
                    fails.append(Failure("tie", "forced-stream", f"event #{idx}: the implementation driven by "
                                         "the stream of the target did not return the target",
                                         expected=ev[3], observed=out))
            for name, inst in self._instances(out):
                cl = shapes[si]
                eff = self._effective(p, ev)
                wf = nameres[1][len(case["params"]) + si]
                si += 1
                if not wf and not cl[2]:
                    # no well-shaped instance exists for these parameters (the call must be rejected); whatever
                    # was returned instead, "at least as many jobs as machines" is a statement about the instance
                    fails.append(Failure(
                        "oracle", "shape:" + CLAUSES[2],
                        f"event #{idx} {self._short(ev)}: instance '{''.join(map(chr, name))}' of generator {i} has "
                        f"fewer jobs than machines although that is disallowed (parameters {eff[:10]} admit no "
                        f"instance at all: the call had to be rejected)", expected=eff[:10], observed=inst))
                if wf:
                    for cname, ok in zip(CLAUSES, cl):
                        if not ok:
                            fails.append(Failure(
                                "oracle", "shape:" + cname,
                                f"event #{idx} {self._short(ev)}: instance '{''.join(map(chr, name))}' of generator "
                                f"{i} violates '{cname}' for parameters {eff[:10]}",
                                expected=eff[:10], observed=inst))
            if kind == 4 and p[11] >= 0 and out[0] == 2 and len(out[1]) != p[11]:
                fails.append(Failure("oracle", "iteration-limit",
                                     f"event #{idx}: len(list(gen)) = {len(out[1])}, iteration_limit = {p[11]}"))
            per_gen_outs[i].append((ev[:1] + ev[2:], impl_outs[idx], idx))
        # --- names never reused by a generator (extracted nodup on each generator's names)
        for i, ok in enumerate(nameres[0]):
            if not ok:
                fails.append(Failure("oracle", "names-distinct", f"generator {i} reused a name"))
        # --- same parameters, same seed => same sequence (as far as both were asked the same)
        for i in range(len(live)):
            for j in range(i + 1, len(live)):
                if live[i] == live[j] and live[i][1] >= 0:
                    for (a1, o1, x1), (a2, o2, x2) in zip(per_gen_outs[i], per_gen_outs[j]):
                        if a1 != a2:
                            break
                        if o1 != o2:
                            fails.append(Failure(
                                "oracle", "same-seed-same-sequence",
                                f"generators {i} and {j} (same parameters, seed {live[i][1]}) answered "
                                f"differently to the same request (events #{x1} / #{x2})",
                                expected=o1, observed=o2))
                            break
        return fails

    @staticmethod
    def _short(ev):
        if ev[0] == 8:
            return [8, ev[1], "<stream>", "<target>"]
        return ev

    # ------------------------------------------------------------------ evidence helpers
    def nontrivial(self, case, obs):
        for out, _ in obs[0]:
            for _, inst in self._instances(out):
                if len(inst) >= 2 and len(inst[0]) >= 2:
                    return True
        return False

    def shrink_candidates(self, case):
        evs = case["events"]
        n = len(evs)
        for i in range(n - 1, -1, -1):
            if evs[i][0] != 0:
                yield dict(case, events=evs[:i] + evs[i + 1:])
        news = [i for i, e in enumerate(evs) if e[0] == 0]
        if len(news) > 1:
            last = len(news) - 1
            yield dict(case, events=[e for i, e in enumerate(evs)
                                     if i != news[-1] and not (e[0] not in (0, 5) and e[1] == last)])
        for pi, p in enumerate(case["params"]):
            for field, val in ((5, p[4]), (1, p[0]), (3, p[2]), (11, -1), (10, 1), (12, 0)):
                if p[field] != val and not any(e[0] in (4, 8) for e in evs):
                    q = list(p)
                    q[field] = val
                    ps = list(case["params"])
                    ps[pi] = q
                    yield dict(case, params=ps)


CHECK = C19
