"""C11 — incremental features equal a from-scratch recomputation.

Case (plain JSON):
  {"spec": instance, "filters": [...], "events": [...], "oracle_upto": n}
Events (the model's protocol, coq/model/CmdC11.v command 1):
  [0, job, pos, [m]]            dispatch
  [1]                           dispatcher.reset()
  [2, kind, [o,m,j], [comps]?, via]   construct an observer (via = 1: through feature_observer_factory)
  [3, idx]                      dispatcher.unsubscribe(objs[idx])
After EVERY event the whole subscriber system (subscription order, every
feature matrix, earliest_start_times, remaining_ops_per_*, deques, composite
matrices and column names) and the schedule rows are compared with the model
(tie). For the first `oracle_upto` events (observers constructed at the initial
state, then dispatches only) every cell the documentation defines is compared
with the extracted specification evaluated on the implementation's own rows
(oracle)."""
from __future__ import annotations

import random

from . import common, gen, session
from .framework import Check, Failure

KINDS = ["IsReady", "EarliestStartTime", "Duration", "IsScheduled", "PositionInJob",
         "RemainingOperations", "IsCompleted", "CompositeFeature", "UnscheduledOperations"]
FACTORY = ["is_ready", "earliest_start_time", "duration", "is_scheduled", "position_in_job",
           "remaining_operations", "is_completed"]
SUPPORTED = {4: [1, 0, 0], 5: [0, 1, 1]}
BAD = 10 ** 9 + 7     # marker for a NaN / non-integral cell where the model has an integer
FT = ["operations", "machines", "jobs"]

KF_DURATION = "duration:ongoing-stale"
KF_COMPLETED = "is-completed:flag-means-scheduled"


def _classes():
    common.import_impl()
    from job_shop_lib.dispatching import UnscheduledOperationsObserver
    from job_shop_lib.dispatching import feature_observers as fo

    return [fo.IsReadyObserver, fo.EarliestStartTimeObserver, fo.DurationObserver, fo.IsScheduledObserver,
            fo.PositionInJobObserver, fo.RemainingOperationsObserver, fo.IsCompletedObserver,
            fo.CompositeFeatureObserver, UnscheduledOperationsObserver]


def _cell(v):
    v = float(v)
    if v != v or v in (float("inf"), float("-inf")) or v != int(v):
        return BAD
    return int(v)


def _col(arr):
    """(n, 1) array -> list of ints"""
    if arr.ndim != 2 or arr.shape[1] != 1:
        return [BAD]
    return [_cell(x) for x in arr[:, 0].tolist()]


def _mat(arr):
    return [[_cell(x) for x in row] for row in arr.tolist()]


def r32(x):
    """exact integers -> the float32 nearest to them (identity below 2^24), recursively"""
    if isinstance(x, list):
        return [r32(y) for y in x]
    if isinstance(x, int) and not isinstance(x, bool) and abs(x) >= (1 << 24):
        import numpy as np
        return int(np.float32(x))
    return x


def _optcell(v):
    v = float(v)
    if v != v:
        return []
    return [_cell(v)]


class Impl:
    def __init__(self, spec, filters):
        common.import_impl()
        from job_shop_lib.dispatching import Dispatcher
        from job_shop_lib.dispatching.feature_observers import FeatureType

        self.classes = _classes()
        self.fts = [FeatureType.OPERATIONS, FeatureType.MACHINES, FeatureType.JOBS]
        self.instance = common.build_instance(spec)
        self.dispatcher = Dispatcher(self.instance, ready_operations_filter=session.make_filter(filters))
        self.objs = []

    def index_of(self, o):
        for i, x in enumerate(self.objs):
            if x is o:
                return i
        return 10 ** 6

    def register_new(self):
        for s in self.dispatcher.subscribers:
            if self.index_of(s) == 10 ** 6:
                self.objs.append(s)

    def enc_obj(self, o):
        kind = next(i for i, c in enumerate(self.classes) if type(o) is c)
        feats = [[], [], []]
        est, remm, remj, dq, comps = [], [], [], [], []
        cmat = [[], [], []]
        cnames = [[], [], []]
        if kind == 8:
            dq = [[session.key(op) for op in q] for q in o.unscheduled_operations_per_job]
        elif kind == 7:
            comps = [self.index_of(c) for c in o.feature_observers]
            for t, ft in enumerate(self.fts):
                if ft in o.features:
                    cmat[t] = [_mat(o.features[ft])]
                cnames[t] = [[ord(ch) for ch in name] for name in o.column_names.get(ft, [])]
        else:
            for t, ft in enumerate(self.fts):
                if ft in o.features:
                    feats[t] = [_col(o.features[ft])]
            if kind == 1:
                est = [[_optcell(x) for x in row] for row in o.earliest_start_times.tolist()]
            if kind == 6:
                remm = _col(o.remaining_ops_per_machine)
                remj = _col(o.remaining_ops_per_job)
        return [kind, feats[0], feats[1], feats[2], est, remm, remj, dq, comps, cmat, cnames]

    def snapshot(self):
        d = self.dispatcher
        return [[self.index_of(s) for s in d.subscribers], [self.enc_obj(o) for o in self.objs],
                [[session.enc_sop(s) for s in row] for row in d.schedule.schedule]]

    def run_event(self, ev):
        from job_shop_lib.dispatching.feature_observers import feature_observer_factory

        d = self.dispatcher
        try:
            if ev[0] == 0:
                d.dispatch(self.instance.jobs[ev[1]][ev[2]], ev[3][0] if ev[3] else None)
                out = []
            elif ev[0] == 1:
                d.reset()
                self.register_new()
                out = []
            elif ev[0] == 2:
                kind, mask = ev[1], ev[2]
                kw = {"feature_types": [ft for ft, b in zip(self.fts, mask) if b]}
                if mask == SUPPORTED.get(kind, [1, 1, 1]) and len(ev) > 5 and ev[5]:
                    kw = {}                               # feature_types=None: all supported types
                if len(ev) > 6 and ev[6] and "feature_types" in kw:
                    # the feature types as they arrive from a JSON / YAML configuration: plain strings
                    # (FeatureType is a str enum; the library accepts its values)
                    kw["feature_types"] = [str(ft.value) for ft in kw["feature_types"]]
                if kind == 7:
                    kw["feature_observers"] = [self.objs[i] for i in ev[3][0]] if ev[3] else None
                if kind == 8:
                    kw = {}
                try:
                    if len(ev) > 4 and ev[4] and kind < 7:
                        o = feature_observer_factory(FACTORY[kind], dispatcher=d, **kw)
                        if type(o) is not self.classes[kind]:
                            return [99]
                    else:
                        o = self.classes[kind](d, **kw)
                finally:
                    self.register_new()
                out = self.index_of(o)
            elif ev[0] == 3:
                d.unsubscribe(self.objs[ev[1]])
                out = []
            else:
                raise ValueError(ev)
        except Exception as e:  # pylint: disable=broad-except
            return [common.exn_code(e), type(e).__name__]
        return [0, out]


def composite_failures(snap):
    """The composite equals the column-wise concatenation of its components, in
    order, with matching column names (checked on the implementation's own values)."""
    fails = []
    objs = snap[1]
    for idx in snap[0]:
        if idx >= len(objs) or objs[idx][0] != 7:
            continue
        o = objs[idx]
        for t in range(3):
            parts = []
            names = []
            for c in o[8]:
                co = objs[c] if c < len(objs) else None
                if co is None:
                    continue
                if co[0] == 7:
                    m = co[9][t][0] if co[9][t] else None
                elif co[0] == 8:
                    m = None
                else:
                    m = [[v] for v in co[1 + t][0]] if co[1 + t] else None
                if m is None:
                    continue
                parts.append(m)
                w = len(m[0]) if m else 1
                names += ([KINDS[co[0]] + f"_{i}" for i in range(w)] if w > 1 else [KINDS[co[0]]])
            want = None
            if parts:
                want = [sum((p[r] for p in parts), []) for r in range(len(parts[0]))]
            got = o[9][t][0] if o[9][t] else None
            if got != want:
                fails.append((idx, t, "values", want, got))
            gnames = ["".join(chr(c) for c in n) for n in o[10][t]]
            if gnames != names:
                fails.append((idx, t, "names", names, gnames))
    return fails


class C11(Check):
    pid = "C11"
    nontrivial_rule = ("instances / observer sets / histories drawn from the seeded generator; a case is non-trivial "
                       "when at least one feature observer is constructed and >= 2 dispatches are accepted; distinct = "
                       "distinct SHA1 of the whole case")
    assumptions = [
        "valid instance: durations >= 0, every operation has at least one machine, machine lists without repetition, "
        "at least one operation, no empty job (EarliestStartTimeObserver indexes a NaN-padded matrix)",
        "observers constructed at the initial state (before the first dispatch), no reset / unsubscribe in between; "
        "the composite is constructed after its components",
        "machine-level sums and counts (Duration, RemainingOperations) only on non-flexible instances",
        "IsCompleted operation flags: no filter, or positive durations (the clock is only then monotone, C06)",
        "float32 exactness: all values < 2^24 (durations <= 10^4, <= 40 operations)",
    ]
    modelled_not_verified = [
        "modelled: every class of job_shop_lib/dispatching/feature_observers (constructor = initialize_features, update, "
        "reset, create_or_get_observer dependencies, CompositeFeatureObserver, feature_observer_factory) and "
        "UnscheduledOperationsObserver (coq/model/FeatureObservers.v); EarliestStartTimeObserver AFTER the repair "
        "(/repo commits b64948b, f806e65)",
        "numpy: float32/float64 arithmetic is exact on the integers that occur; fancy-indexed '+=' counts a repeated "
        "index once; np.concatenate / hstack / cumsum / NaN propagation as modelled (validated by sampling only)",
    ]

    def budget(self):
        return 700 if self.tier == "quick" else 12000

    def search_budget(self):
        return 1500 if self.tier == "quick" else 20000

    # ---- generation ------------------------------------------------------
    def gen_instance(self, rng):
        r = rng.random()
        kw = dict(max_jobs=4, max_machines=4, max_ops=4, big=rng.random() < 0.15)
        if r < 0.25:
            kw.update(regular=True, flexible=False)          # regular; per-machine counts often ragged
        elif r < 0.35:
            kw.update(regular=True, flexible=False, recirculation=False)
        elif r < 0.55:
            kw.update(flexible=False)
        spec = common.gen_instance(rng, **kw)
        if 0.25 <= r < 0.35 and rng.random() < 0.6 and len(spec) >= 2:
            # rectangular AND recirculating: start from "every job visits every machine once" with as many
            # operations per job as there are machines, then exchange machines between two jobs so that every
            # machine keeps its number of operations while one job visits a machine twice and skips another
            nm = common.num_machines_of(spec)
            if all(len(job) == nm for job in spec) and nm >= 2:
                for _ in range(rng.randint(1, 2)):
                    a, b = rng.sample(range(len(spec)), 2)
                    p, q = rng.randrange(nm), rng.randrange(nm)
                    spec[a][p][0], spec[b][q][0] = spec[b][q][0], spec[a][p][0]
                self.note("inst_rectangular_with_recirculation")
        if rng.random() < 0.2:                                # unused machine ids
            shift = rng.randint(1, 2)
            spec = [[[[m + shift if m >= 1 or rng.random() < 0.5 else m for m in ms], d] for ms, d in job]
                    for job in spec]
            spec = [[[sorted(set(ms), key=ms.index), d] for ms, d in job] for job in spec]
        return spec

    def gen_ctor(self, rng, sim, kind=None, allow_bad=True):
        if kind is None:
            kind = rng.randrange(7)
        sup = SUPPORTED.get(kind, [1, 1, 1])
        r = rng.random()
        if r < 0.45:
            mask = list(sup)
        else:
            mask = [b if rng.random() < 0.6 else 0 for b in sup]
        if kind == 4:
            mask = [1, 0, 0]      # PositionInJobObserver indexes features[OPERATIONS] unconditionally
        if allow_bad and rng.random() < 0.04:
            mask = [1, 1, 1]
        ev = [2, kind, mask, [], int(rng.random() < 0.5), int(rng.random() < 0.5), int(rng.random() < 0.2)]
        sim.construct(kind, mask)
        return ev

    def make_case(self, rng):
        spec = self.gen_instance(rng)
        # "f32" family: durations next to 2^24. Times are exact as Python ints and as float64, the float32 feature
        # cells hold the correctly rounded value: the comparison rounds the model's / the specification's exact
        # integers the same way (r32). DurationObserver is left out of these cases (its machine / job features are
        # float32 SUMS, whose rounding depends on numpy's summation order - not modelled).
        f32 = rng.random() < 0.06
        if f32:
            spec = [[[ms, ((1 << 24) + rng.randint(-3, 3)) if rng.random() < 0.6 else rng.randint(1, 3)]
                     for ms, _ in job] for job in spec]
            self.note("inst_f32_family")
        fs = []
        if rng.random() < 0.45:
            fs = [rng.randrange(4) for _ in range(rng.randint(1, 2))]
        sim = Sim()
        events = []
        kinds = [k for k in range(7) if not (f32 and k == 2)]
        rng.shuffle(kinds)
        r = rng.random()
        if r < 0.5:
            chosen = kinds
        else:
            chosen = kinds[:rng.randint(1, 6)]
        if rng.random() < 0.15:
            chosen = chosen + [rng.choice(kinds)]             # the same class twice (not singletons)
        if rng.random() < 0.1:
            events.append([2, 8, [1, 1, 1], [], 0, 0])        # an unscheduled-operations observer first
            sim.construct(8, [1, 1, 1])
        for k in chosen:
            events.append(self.gen_ctor(rng, sim, k))
        if rng.random() < 0.75:
            events.append(self.gen_composite(rng, sim))
            if rng.random() < 0.15:
                events.append(self.gen_composite(rng, sim))   # nested
        tr = gen.Tracker(spec)
        total = sum(len(j) for j in spec)
        stop = total if rng.random() < 0.8 else rng.randint(0, total)
        n = 0
        while not tr.done() and n < stop:
            ev = gen.valid_request(rng, tr, explicit=True)
            events.append(ev)
            n += 1
        upto = len(events)
        if rng.random() < 0.3:                                # second part: tie only
            for _ in range(rng.randint(1, 3)):
                r = rng.random()
                if r < 0.5:
                    events.append([1])
                    tr.reset()
                    sim.reset()
                elif r < 0.75 and sim.objs:
                    i = rng.randrange(len(sim.objs))
                    events.append([3, i])
                    sim.unsubscribe(i)
                elif r < 0.9:
                    # f32 cases: no EarliestStartTimeObserver constructed on a dispatcher with a past - the cells of
                    # the operations ALREADY scheduled keep the constructor's float32 cumulative sums (rounded above
                    # 2^24; the property does not speak about them), which the exact model does not reproduce
                    late_kinds = [k for k in kinds if not (f32 and k == 1)]
                    events.append(self.gen_ctor(rng, sim, kind=rng.choice(late_kinds), allow_bad=False))
                else:
                    events.append(self.gen_composite(rng, sim))
                for _ in range(rng.randint(0, 5)):
                    if tr.done():
                        break
                    events.append(gen.valid_request(rng, tr, explicit=True))
        case = {"spec": spec, "filters": fs, "events": events, "oracle_upto": upto}
        if f32:
            case["f32"] = 1
        return case

    def gen_composite(self, rng, sim):
        fo = [i for i, (k, _) in enumerate(sim.objs) if k != 8]
        r = rng.random()
        mask = [1, 1, 1]
        if r < 0.5 or not fo:
            comps = []
        else:
            sub = [i for i in fo if i in sim.subs or rng.random() < 0.5]
            sub = rng.sample(sub, rng.randint(1, len(sub))) if sub else []
            if rng.random() < 0.5:
                sub.sort()
            comps = [sub]
        if rng.random() < 0.08:
            mask = [rng.randrange(2), rng.randrange(2), rng.randrange(2)]
        ev = [2, 7, mask, comps, 0, int(rng.random() < 0.5)]
        sim.construct(7, mask, comps[0] if comps else None)
        return ev

    def gen_cases(self, rng, n):
        cases = []
        for _ in range(n):
            c = self.make_case(rng)
            cases.append(c)
            st = common.instance_stats(c["spec"])
            self.note("cases")
            self.note("inst_flexible", int(st["flexible"]))
            self.note("inst_zero", int(st["zero"]))
            self.note("inst_regular", int(len({len(j) for j in c["spec"]}) == 1))
            self.note("inst_unused_machine_ids", int(unused_ids(c["spec"])))
            self.note("inst_recirculation", int(recirculates(c["spec"])))
            self.note("with_filter", int(bool(c["filters"])))
            self.note("ev_dispatch", sum(1 for e in c["events"] if e[0] == 0))
            self.note("ev_construct", sum(1 for e in c["events"] if e[0] == 2))
            self.note("ev_composite", sum(1 for e in c["events"] if e[0] == 2 and e[1] == 7))
            self.note("ev_reset", sum(1 for e in c["events"] if e[0] == 1))
            self.note("ev_unsubscribe", sum(1 for e in c["events"] if e[0] == 3))
            self.note("with_second_part", int(c["oracle_upto"] < len(c["events"])))
        return cases

    # ---- running ---------------------------------------------------------
    def run_impl(self, case):
        impl = Impl(case["spec"], case["filters"])
        outs = []
        for ev in case["events"]:
            r = impl.run_event(ev)
            outs.append([r, impl.snapshot()])
        return [common.norm([[o[0][:1] + ([o[0][1]] if o[0][0] == 0 else []), o[1]] for o in outs]),
                [o[0][1] if o[0][0] != 0 and len(o[0]) > 1 else "" for o in outs]]

    def model_requests(self, case, obs):
        outs, _ = obs
        evs = [e[:4] for e in case["events"]]
        rows = [o[1][2] for o in outs[:case["oracle_upto"]]]
        return [(1101, [case["spec"], case["filters"], evs]),
                (1102, [case["spec"], case["filters"], rows]),
                (1103, [])]

    def judge(self, case, obs, outs):
        impl_outs, exn_names = obs
        model_out, spec_out, factory = outs
        if case.get("f32"):
            # per object: [kind, features(operations), features(machines), features(jobs), ...]; the float32 feature
            # arrays are rounded, the EarliestStartTimeObserver's float64 table (position 4) is compared exactly
            model_out = [[b[0], [b[1][0], [(list(o[:1]) + r32(list(o[1:4])) + list(o[4:]) if o and o[0] == 1 else r32(o)) for o in b[1][1]]]
                          + list(b[1][2:])] + list(b[2:]) for b in model_out]
            spec_out = [list(sp[:1]) + r32(list(sp[1:8])) + list(sp[8:]) for sp in spec_out]
        fails = []
        # factory table / class names
        for c, ent in enumerate(factory[:7]):
            if not ent or ent[0] != c or "".join(chr(x) for x in ent[1]) != KINDS[c]:
                fails.append(Failure("tie", "factory-table", f"factory entry {c}: model {ent}"))
        # tie: everything, after every event
        for i, (a, b) in enumerate(zip(impl_outs, model_out)):
            ia = [a[0], a[1][0], a[1][1], a[1][2]]
            ib = [b[0], b[1][0], b[1][1], b[2]]
            if ia != ib:
                what = "result" if a[0] != b[0] else ("subscribers" if ia[1] != ib[1] else
                                                      ("rows" if ia[3] != ib[3] else "features"))
                detail = f"event #{i} {case['events'][i]}: implementation and model differ in {what}"
                if what == "features":
                    for k, (x, y) in enumerate(zip(ia[2], ib[2])):
                        if x != y:
                            detail += f"; object {k} ({KINDS[x[0]]}): impl {x[1:8]} model {y[1:8]}"
                            break
                if what == "result":
                    detail += f" impl {a[0]} ({exn_names[i]}) model {b[0]}"
                sub = "impl-vs-model"
                if what == "result" and case["events"][i][0] == 2:
                    sub = "constructible" if case["events"][i][1] < 7 else "composite-construct"
                fails.append(Failure("tie", sub, detail, expected=b[0] if what == "result" else None,
                                     observed=a[0] if what == "result" else None))
                break
        # constructible: a constructor with supported feature types never raises
        for i, (ev, a) in enumerate(zip(case["events"], impl_outs)):
            if ev[0] == 2 and ev[1] < 7 and a[0][0] != 0:
                sup = SUPPORTED.get(ev[1], [1, 1, 1])
                if all(m <= s for m, s in zip(ev[2], sup)):
                    fails.append(Failure("oracle", "constructible",
                                         f"event #{i}: {KINDS[ev[1]]}Observer(feature_types={ev[2]}) raised "
                                         f"{exn_names[i]} on a valid instance", observed=a[0]))
        # oracle
        for i in range(min(case["oracle_upto"], len(impl_outs), len(spec_out))):
            snap = impl_outs[i][1]
            model_snap = model_out[i][1] if i < len(model_out) else None
            self.oracle(fails, i, case, snap, model_snap, spec_out[i])
            for idx, t, what, want, got in composite_failures(snap):
                fails.append(Failure("oracle", "composite:" + what,
                                     f"event #{i}: composite object {idx}, {FT[t]}: not the concatenation of its "
                                     f"components", expected=want, observed=got))
        return fails

    def oracle(self, fails, i, case, snap, model_snap, sp):
        subs, objs = snap[0], snap[1]
        work, unsch, allsched = sp[8], sp[9], sp[10]
        flexible = bool(sp[11])
        nmach = len(sp[1][1])
        has_op_m = [0] * nmach
        for job in case["spec"]:
            for ms, _ in job:
                for m in ms:
                    has_op_m[m] = 1
        for idx in subs:
            if idx >= len(objs):
                continue
            o = objs[idx]
            k = o[0]
            if k > 6:
                continue
            want = sp[1 + k]
            mo = None
            if model_snap is not None and idx < len(model_snap[1]):
                mo = model_snap[1][idx]
            for t in range(3):
                if not o[1 + t] or not want[t]:
                    continue
                got = o[1 + t][0]
                n = len(want[t])
                if len(got) != n:
                    fails.append(Failure("oracle", f"{KINDS[k]}:{FT[t]}", f"event #{i}: wrong length"))
                    continue
                if t == 1 and flexible and k in (2, 5):
                    continue            # machine-level sums / counts: non-flexible instances only
                if k == 6 and t == 0 and case["filters"] and not sp[12]:
                    continue            # sticky flags rest on a monotone clock: with a filter, positive durations only
                if k == 1 and t > 0:
                    rel = unsch[t]
                elif k == 4:
                    rel = work[0]
                elif k in (0, 3) or (k in (2, 5) and t > 0):
                    rel = [1] * n
                else:
                    rel = work[t]
                for e in range(n):
                    if not rel[e] or got[e] == want[t][e]:
                        continue
                    sub = f"{KINDS[k]}:{FT[t]}"
                    same_as_model = mo is not None and mo[1 + t] and mo[1 + t][0][e] == got[e]
                    if k == 2 and t == 0 and not unsch[0][e] and same_as_model:
                        sub = KF_DURATION
                    if k == 6 and t > 0 and got[e] == 1 and want[t][e] == 0 and allsched[t][e] == 1 and same_as_model:
                        sub = KF_COMPLETED
                    fails.append(Failure(
                        "oracle", sub,
                        f"event #{i} {case['events'][i]}: {KINDS[k]}Observer.features[{FT[t]}][{e}] = {got[e]}, "
                        f"recomputed from the instance and the schedule rows: {want[t][e]} (now = {sp[0]})",
                        expected=want[t][e], observed=got[e]))
                    break
                # the completion flags in the meaning the code implements: all operations scheduled
                if k == 6 and t > 0:
                    for e in range(n):
                        if (t == 2 or has_op_m[e]) and len(case["spec"][e] if t == 2 else [1]) > 0 \
                                and got[e] != allsched[t][e]:
                            fails.append(Failure("oracle", f"IsCompleted:{FT[t]}:all-scheduled",
                                                 f"event #{i}: flag {got[e]} for entity {e}, all-scheduled = "
                                                 f"{allsched[t][e]}", expected=allsched[t][e], observed=got[e]))
                            break

    # ---- evidence helpers --------------------------------------------------
    def nontrivial(self, case, obs):
        outs, _ = obs
        nd = sum(1 for ev, o in zip(case["events"], outs) if ev[0] == 0 and o[0][0] == 0)
        nc = sum(1 for ev, o in zip(case["events"], outs) if ev[0] == 2 and ev[1] < 8 and o[0][0] == 0)
        return nd >= 2 and nc >= 1

    def shrink_candidates(self, case):
        evs = case["events"]
        n = len(evs)
        upto = case["oracle_upto"]
        if upto < n:
            yield dict(case, events=evs[:upto])
        for cut in (n // 2, n * 3 // 4, n - 1, n - 2):
            if 0 < cut < n:
                yield dict(case, events=evs[:cut], oracle_upto=min(upto, cut))
        if case["filters"]:
            yield dict(case, filters=case["filters"][:-1])
        # drop a constructor when no later constructor names explicit components
        if not any(e[0] == 2 and e[1] == 7 and e[3] for e in evs) and not any(e[0] == 3 for e in evs):
            for i, e in enumerate(evs):
                if e[0] == 2:
                    yield dict(case, events=evs[:i] + evs[i + 1:], oracle_upto=max(0, upto - (1 if i < upto else 0)))
        spec = case["spec"]
        for j, job in enumerate(spec):
            for p, (ms, d) in enumerate(job):
                if d > 1:
                    s2 = [[list(o) for o in jb] for jb in spec]
                    s2[j][p] = [ms, 1]
                    yield dict(case, spec=s2)


class Sim:
    """Generator-side book-keeping of which objects exist (NOT an oracle: only
    used to pick valid object indices for composite components / unsubscribe)."""

    def __init__(self):
        self.objs = []      # (kind, mask)
        self.subs = []

    def add(self, kind, mask):
        self.objs.append((kind, list(mask)))
        self.subs.append(len(self.objs) - 1)
        return len(self.objs) - 1

    def ensure_unsched(self):
        if not any(self.objs[i][0] == 8 for i in self.subs):
            self.add(8, [0, 0, 0])

    def ensure_remops(self, mask):
        rem = [0, mask[1], mask[2]]
        if not any(self.objs[i][0] == 5 and all(a <= b for a, b in zip(rem, self.objs[i][1]))
                   for i in self.subs):
            self.add(5, rem)
            self.ensure_unsched()

    def construct(self, kind, mask, comps=None):
        sup = SUPPORTED.get(kind, [1, 1, 1])
        if any(m > s for m, s in zip(mask, sup)):
            return
        if kind == 8:
            if any(self.objs[i][0] == 8 for i in self.subs):
                return
            self.add(8, [0, 0, 0])
        elif kind == 5:
            self.add(5, mask)
            self.ensure_unsched()
        elif kind == 6:
            self.add(6, mask)
            self.ensure_remops(mask)
        elif kind == 7:
            if comps is None:
                comps = [i for i in self.subs if self.objs[i][0] != 8]
            cm = [0, 0, 0]
            for c in comps:
                if any(a > b for a, b in zip(self.objs[c][1], mask)):
                    return
                cm = [max(a, b) for a, b in zip(cm, self.objs[c][1])]
            self.add(7, cm)
        else:
            self.add(kind, mask)

    def unsubscribe(self, i):
        if i in self.subs:
            self.subs.remove(i)

    def reset(self):
        k = 0
        while k < len(self.subs):
            kind, mask = self.objs[self.subs[k]]
            if kind == 5:
                self.ensure_unsched()
            elif kind == 6:
                self.ensure_remops(mask)
            k += 1


def unused_ids(spec):
    used = {m for job in spec for ms, _ in job for m in ms}
    return bool(used) and len(used) < max(used) + 1


def recirculates(spec):
    for job in spec:
        seen = set()
        for ms, _ in job:
            if seen & set(ms):
                return True
            seen |= set(ms)
    return False


CHECK = C11
