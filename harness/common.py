"""Shared machinery of the correspondence harness.

Run with /venv/bin/python. The implementation is ALWAYS imported from /repo's
working tree (sys.path is forced), never from an installed copy.
"""
from __future__ import annotations

import hashlib
import json
import os
import random
import subprocess
import sys
import time

VERIF = os.path.dirname(os.path.dirname(os.path.abspath(__file__)))
REPO = os.environ.get("VERIF_REPO", "/repo")
RUNNER = os.path.join(VERIF, "coq", "_run", "runner")

os.environ.setdefault("MPLBACKEND", "Agg")
os.environ["JOB_SHOP_LIB_VERIF"] = "1"
if sys.path[0] != REPO:
    sys.path.insert(0, REPO)


def import_impl():
    """Imports job_shop_lib from /repo and checks that this is what we got."""
    import job_shop_lib  # noqa

    path = os.path.realpath(job_shop_lib.__file__)
    if not path.startswith(os.path.realpath(REPO) + os.sep):
        raise RuntimeError(f"job_shop_lib imported from {path}, not {REPO}")
    return job_shop_lib


# --------------------------------------------------------------------------
# s-expressions <-> nested python lists of ints
# --------------------------------------------------------------------------

def to_sexp(v) -> str:
    if isinstance(v, bool):
        return "1" if v else "0"
    if isinstance(v, int):
        return str(v)
    if v is None:
        return "()"
    return "(" + " ".join(to_sexp(x) for x in v) + ")"


def from_sexp(s: str):
    pos = 0
    n = len(s)
    stack = [[]]
    while pos < n:
        c = s[pos]
        if c == "(":
            stack.append([])
            pos += 1
        elif c == ")":
            top = stack.pop()
            stack[-1].append(top)
            pos += 1
        elif c in " \t\r\n":
            pos += 1
        else:
            j = pos
            while j < n and s[j] not in " ()\t\r\n":
                j += 1
            stack[-1].append(int(s[pos:j]))
            pos = j
    assert len(stack) == 1 and len(stack[0]) == 1, "malformed s-expression"
    return stack[0][0]


def norm(v):
    """Normalises an observation to nested lists of ints (bool -> 0/1)."""
    if isinstance(v, bool):
        return 1 if v else 0
    if isinstance(v, int):
        return int(v)
    if v is None:
        return []
    if isinstance(v, float):
        if v != v or v in (float("inf"), float("-inf")) or v != int(v):
            raise ValueError(f"non-integral float in observation: {v!r}")
        return int(v)
    try:
        import numpy as np

        if isinstance(v, np.generic):
            return norm(v.item())
        if isinstance(v, np.ndarray):
            return norm(v.tolist())
    except ImportError:  # pragma: no cover
        pass
    return [norm(x) for x in v]


def run_model(cases, chunk=300, jobs=12):
    """cases: list of (cmd_id, value). Returns the list of result values.
    Inputs go through files (never through a pipe we also read from)."""
    import shutil
    import tempfile

    if not cases:
        return []
    if not os.path.exists(RUNNER):
        raise RuntimeError("model runner not built")
    lines = [f"{c} {to_sexp(v)}" for c, v in cases]
    chunks = [lines[i:i + chunk] for i in range(0, len(lines), chunk)]
    scratch_root = os.path.join(VERIF, ".scratch")
    os.makedirs(scratch_root, exist_ok=True)
    tmp = tempfile.mkdtemp(dir=scratch_root)
    try:
        results = [None] * len(chunks)
        running = []
        idx = 0
        while idx < len(chunks) or running:
            while idx < len(chunks) and len(running) < jobs:
                fin = os.path.join(tmp, f"in{idx}")
                fout = os.path.join(tmp, f"out{idx}")
                with open(fin, "w") as f:
                    f.write("\n".join(chunks[idx]) + "\n")
                p = subprocess.Popen([RUNNER], stdin=open(fin), stdout=open(fout, "w"))
                running.append((idx, p, fout))
                idx += 1
            i, p, fout = running.pop(0)
            rc = p.wait()
            if rc != 0:
                raise RuntimeError(f"model runner failed (exit {rc})")
            with open(fout) as f:
                res = [from_sexp(l) for l in f.read().splitlines() if l.strip()]
            if len(res) != len(chunks[i]):
                raise RuntimeError("model runner returned a wrong number of lines")
            results[i] = res
        outs = []
        for r in results:
            outs.extend(r)
        return outs
    finally:
        shutil.rmtree(tmp, ignore_errors=True)


# --------------------------------------------------------------------------
# Instances
# --------------------------------------------------------------------------

def build_instance(spec, name="verif"):
    """spec: list of jobs; job: list of [machines(list), duration]."""
    import_impl()
    from job_shop_lib import JobShopInstance, Operation

    # The same instance can reach the library through three documented doors; which one is used is a function of
    # the instance (so every case replays identically): the constructor (70%, of which 20% with re-used / subclassed Operation objects), JobShopInstance.from_matrices, or
    # a dictionary that went through JSON and back (to_dict -> json -> from_matrices, what the benchmark loader
    # and Schedule.from_dict do). Properties quantify over instances, not over how they were typed in.
    route = int(case_hash(spec)[:6], 16) % 10
    if route in (3, 4) and spec:
        # Operation objects with a past: instances of a user SUBCLASS carrying extra attributes (the documented way
        # of attaching due dates, priorities, release dates to operations - none of them means anything to the
        # library), first packed into ANOTHER instance (jobs and operations in reverse order), then into this one.
        # JobShopInstance.__init__ assigns job_id / position_in_job / operation_id afresh every time.
        class TaggedOperation(Operation):
            __slots__ = ("due_date", "release_date", "priority")

            def __init__(self, machines, duration):
                super().__init__(machines, duration)
                self.due_date, self.release_date, self.priority = 7, 5, 3

        cls = TaggedOperation if route == 3 else Operation
        jobs = [[cls(list(ms), d) for ms, d in job] for job in spec]
        JobShopInstance([list(reversed(job)) for job in reversed(jobs)], name="an earlier arrangement")
        inst = JobShopInstance(jobs, name=name)
        if route == 4:
            # ... and a variant derived afterwards from DEEP COPIES of its jobs (a job dropped, the others in
            # another order - comparing scenarios): copies are independent objects, the instance must not notice
            import copy

            JobShopInstance([list(job) for job in reversed(copy.deepcopy(inst.jobs)[1:])], name="a variant")
            try:
                # the library's own way of deriving such variants, where this version ships it
                from job_shop_lib.generation._transformations import RemoveJobs
            except ImportError:
                RemoveJobs = None
            if RemoveJobs is not None and len(inst.jobs) > 1:
                RemoveJobs.remove_job(inst, 0)       # (deterministic; RemoveJobs.apply draws from the global RNG)
        return inst
    if route >= 3 or not spec:
        jobs = [[Operation(list(ms), d) for ms, d in job] for job in spec]
        return JobShopInstance(jobs, name=name)
    durations = [[d for _, d in job] for job in spec]
    flexible = any(len(ms) != 1 for job in spec for ms, _ in job)
    machines = [[list(ms) if flexible or route == 0 else ms[0] for ms, _ in job] for job in spec]
    inst = JobShopInstance.from_matrices(durations, machines, name=name)
    if route == 2:
        d = json.loads(json.dumps(inst.to_dict()))
        inst = JobShopInstance.from_matrices(**d)
    return inst


def spec_of_instance(instance):
    return [[[list(op.machines), int(op.duration)] for op in job] for job in instance.jobs]


def num_machines_of(spec):
    m = -1
    for job in spec:
        for ms, _ in job:
            for x in ms:
                m = max(m, x)
    return m + 1


def gen_instance(rng: random.Random, *, max_jobs=5, max_machines=4, max_ops=4,
                 allow_empty_jobs=False, flexible=None, zero=None, big=False,
                 min_jobs=1, min_ops=None, regular=False, recirculation=True, huge=False, p_all_huge=0.06):
    """Structured random instance (see DESIGN 3.3)."""
    nj = rng.randint(min_jobs, max_jobs)
    nm = rng.randint(1, max_machines)
    if flexible is None:
        flexible = rng.random() < 0.4
    if zero is None:
        zero = rng.random() < 0.3
    # "heavy": most durations are 0 and every job begins with a zero-duration operation, so that whole
    # prefixes of a history have makespan 0 although operations are scheduled
    zero_heavy = bool(zero) and rng.random() < 0.2
    # "all huge": every duration sits next to 2^24 or 2^53 (or is tiny), so sums and differences of times are
    # exact as Python ints but not as float32 / float64
    huge_base = rng.choice([1 << 24, 1 << 53]) if huge and rng.random() < p_all_huge else None
    lo_ops = 0 if allow_empty_jobs else 1
    if min_ops is not None:
        lo_ops = min_ops
    fixed_len = rng.randint(max(1, lo_ops), max_ops) if regular else None
    spec = []
    for _ in range(nj):
        n_ops = fixed_len if regular else rng.randint(lo_ops, max_ops)
        job = []
        if not recirculation and not flexible:
            order = list(range(nm))
            rng.shuffle(order)
            n_ops = min(n_ops, nm)
        for p in range(n_ops):
            if flexible and rng.random() < 0.6:
                k = rng.randint(1, nm)
                ms = rng.sample(range(nm), k)
            elif not recirculation and not flexible:
                ms = [order[p]]
            else:
                ms = [rng.randrange(nm)]
            r = rng.random()
            if huge_base is not None:
                d = huge_base + rng.randint(-3, 3) if r < 0.6 else rng.randint(1, 3)
            elif zero and (r < 0.25 or (zero_heavy and (p == 0 or r < 0.7))):
                d = 0
            elif huge and r > 0.97:
                d = (1 << 53) + rng.randint(-3, 3)      # beyond float64's exact integer range (Python ints are exact)
            elif huge and r > 0.93:
                d = (1 << 24) + rng.randint(-3, 3)      # beyond float32's exact integer range
            elif big and r > 0.9:
                d = rng.randint(100, 10000)
            else:
                d = rng.randint(1, 9)
            job.append([ms, d])
        spec.append(job)
    if not any(spec):
        spec[0] = [[[0], 1]]
    return spec


def instance_stats(spec):
    ops = [o for job in spec for o in job]
    return {
        "jobs": len(spec), "machines": num_machines_of(spec), "ops": len(ops),
        "flexible": any(len(ms) > 1 for ms, _ in ops),
        "zero": any(d == 0 for _, d in ops),
        "empty_job": any(len(j) == 0 for j in spec),
    }


def case_hash(obj) -> str:
    return hashlib.sha1(json.dumps(obj, sort_keys=True).encode()).hexdigest()


# --------------------------------------------------------------------------
# Exceptions -> small enum (the model's exn_code)
# --------------------------------------------------------------------------

def exn_code(e: BaseException) -> int:
    from job_shop_lib.exceptions import (ValidationError, UninitializedAttributeError)

    if isinstance(e, ValidationError):
        return 1
    if isinstance(e, UninitializedAttributeError):
        return 2
    if isinstance(e, IndexError):
        return 3
    return 4


class Timer:
    def __init__(self):
        self.t0 = time.time()

    def elapsed(self):
        return time.time() - self.t0
