"""C14 — instances and schedules survive serialisation; views match; nobody
mutates the instance.

Case kinds (case["kind"]):
  views     every derived view + to_dict -> json -> from_matrices round trip
  matrices  from_matrices on arbitrary (also ill-shaped) matrices        (tie only)
  taillard  text file round trip through /verif/.scratch
  sched     real Dispatcher history -> to_dict/from_dict, job sequences -> from_job_sequences
  perm      arbitrary per-machine sequences (valid, deadlocking, ill-formed)
  immut     deep snapshot of the instance around dispatcher/solver/graph/env scenarios
"""
from __future__ import annotations

import copy
import json
import os
import random
import signal

from . import common
from .framework import Check, Failure
from .sessioncheck import CLAUSES

SCRATCH = os.path.join(common.VERIF, ".scratch")
VIEW_NAMES = ["attrs", "num_jobs", "num_machines", "num_operations", "is_flexible", "durations_matrix",
              "machines_matrix", "durations_matrix_array", "machines_matrix_array",
              "operations_by_machine", "max_duration", "max_duration_per_job",
              "max_duration_per_machine", "job_durations", "machine_loads", "total_duration"]
CACHED = ["num_machines", "num_operations", "is_flexible", "durations_matrix", "machines_matrix",
          "durations_matrix_array", "machines_matrix_array", "operations_by_machine", "max_duration",
          "max_duration_per_job", "max_duration_per_machine", "job_durations", "machine_loads",
          "total_duration"]
HANG = 8
OUT_OF_FUEL = 9


# --------------------------------------------------------------------------
# helpers running in the workers
# --------------------------------------------------------------------------

class _Timeout(Exception):
    pass


def _alarm(signum, frame):
    raise _Timeout()


def guarded(f, seconds=5.0):
    """[0, value] | [exception code] | [HANG] (never blocks for more than [seconds])."""
    old = signal.signal(signal.SIGALRM, _alarm)
    signal.setitimer(signal.ITIMER_REAL, seconds)
    try:
        return [0, f()]
    except _Timeout:
        return [HANG]
    except Exception as e:  # pylint: disable=broad-except
        return [common.exn_code(e)]
    finally:
        signal.setitimer(signal.ITIMER_REAL, 0)
        signal.signal(signal.SIGALRM, old)


def res(f):
    try:
        return [0, f()]
    except Exception as e:  # pylint: disable=broad-except
        return [common.exn_code(e)]


def build(spec, name="verif", meta=None, ints=False):
    """ints: pass a bare int for single-machine operations (Operation wraps it)."""
    common.import_impl()
    from job_shop_lib import JobShopInstance, Operation

    jobs = [[Operation(ms[0] if (ints and len(ms) == 1) else list(ms), d) for ms, d in job] for job in spec]
    return JobShopInstance(jobs, name=name, **(meta or {}))


def enc_arr(a):
    """numpy float32 array -> nested lists, NaN -> [], value -> [int]."""
    import numpy as np

    if not isinstance(a, np.ndarray) or a.dtype != np.float32:
        raise TypeError("not a float32 array")

    def rec(x):
        if isinstance(x, list):
            return [rec(y) for y in x]
        if x != x:
            return []
        if x != int(x):
            raise ValueError("non-integral cell")
        return [int(x)]
    return rec(a.tolist())


def key(op):
    return [op.job_id, op.position_in_job]


def rows_of(schedule):
    return [[[s.operation.job_id, s.operation.position_in_job, s.start_time, s.machine_id] for s in row]
            for row in schedule.schedule]


def views_of(inst):
    out = [res(lambda: [[[o.job_id, o.position_in_job, o.operation_id] for o in job] for job in inst.jobs])]
    out.append(res(lambda: inst.num_jobs))
    out.append(res(lambda: inst.num_machines))
    out.append(res(lambda: inst.num_operations))
    out.append(res(lambda: bool(inst.is_flexible)))
    out.append(res(lambda: inst.durations_matrix))
    out.append(res(lambda: inst.machines_matrix))
    out.append(res(lambda: enc_arr(inst.durations_matrix_array)))
    out.append(res(lambda: (lambda a: [a.ndim, enc_arr(a)])(inst.machines_matrix_array)))
    out.append(res(lambda: [[key(o) for o in ops] for ops in inst.operations_by_machine]))
    out.append(res(lambda: inst.max_duration))
    out.append(res(lambda: inst.max_duration_per_job))
    out.append(res(lambda: inst.max_duration_per_machine))
    out.append(res(lambda: inst.job_durations))
    out.append(res(lambda: inst.machine_loads))
    out.append(res(lambda: inst.total_duration))
    return common.norm(out)


PLAIN = {0, 1, 3, 4, 5, 13, 15}      # views the model returns bare (they cannot raise)


def flatten_views(v):
    """impl [0, x] -> x for the views that the model returns without a result wrapper."""
    out = []
    for i, x in enumerate(v):
        if i in PLAIN and x and x[0] == 0:
            out.append(x[1])
        else:
            out.append(x)
    return out


# ---- immutability -----------------------------------------------------------

def canon_view(v):
    import numpy as np

    if isinstance(v, np.ndarray):
        return ["arr", str(v.dtype), list(v.shape), [None if x != x else x for x in v.flatten().tolist()]]
    if isinstance(v, list):
        return [canon_view(x) for x in v]
    if hasattr(v, "operation_id") and hasattr(v, "machines"):
        return ["op", id(v)]
    return v


def deep_snapshot(inst):
    """Everything observable about the instance, identities included."""
    snap = [
        id(inst.jobs),
        [id(job) for job in inst.jobs],
        [[id(o) for o in job] for job in inst.jobs],
        [[[list(o.machines), id(o.machines), o.duration, o.job_id, o.position_in_job, o.operation_id]
          for o in job] for job in inst.jobs],
        inst.name,
        copy.deepcopy(inst.metadata),
        id(inst.metadata),
        {n: (id(inst.__dict__[n]), copy.deepcopy(canon_view(inst.__dict__[n])))
         for n in CACHED if n in inst.__dict__},
    ]
    return snap


SNAP_FIELDS = ["jobs-list-identity", "job-list-identities", "operation-identities", "operation-fields",
               "name", "metadata-content", "metadata-identity", "cached-views"]


def scenario(sid, inst, rng):
    """Runs one consumer of the instance. Exceptions of the consumers are not
    this property's business (they are reported as a counter)."""
    from job_shop_lib.dispatching import Dispatcher, HistoryObserver, UnscheduledOperationsObserver
    from job_shop_lib.dispatching import DispatcherObserverConfig

    if sid == 0:
        from job_shop_lib.dispatching.feature_observers import (CompositeFeatureObserver,
                                                                 FeatureObserverType,
                                                                 feature_observer_factory)
        from job_shop_lib.reinforcement_learning import MakespanReward, IdleTimeReward
        d = Dispatcher(inst)
        HistoryObserver(d)
        UnscheduledOperationsObserver(d)
        MakespanReward(d)
        IdleTimeReward(d)
        fobs = []
        for t in FeatureObserverType:
            try:
                fobs.append(feature_observer_factory(t, dispatcher=d))
            except Exception:  # pylint: disable=broad-except
                pass
        CompositeFeatureObserver(d, feature_observers=fobs)
        try:
            from job_shop_lib import graphs
            from job_shop_lib.graphs.graph_updaters import ResidualGraphUpdater
            ResidualGraphUpdater(d, graphs.build_agent_task_graph(inst))
        except Exception:  # pylint: disable=broad-except
            pass
        for _ in range(2):
            while not d.schedule.is_complete():
                ops = d.raw_ready_operations()
                op = rng.choice(ops)
                d.dispatch(op, rng.choice(op.machines))
                d.available_operations()
                d.current_time()
                d.uncompleted_operations()
                d.completed_operations()
            d.reset()
    elif sid == 1:
        from job_shop_lib.dispatching.rules import DispatchingRuleSolver
        rule = rng.choice(["shortest_processing_time", "first_come_first_served", "most_work_remaining",
                           "most_operations_remaining", "random"])
        solver = DispatchingRuleSolver(dispatching_rule=rule, machine_chooser=rng.choice(["first", "random"]))
        solver(inst)
    elif sid == 2:
        from job_shop_lib.constraint_programming import ORToolsSolver
        ORToolsSolver(max_time_in_seconds=2)(inst)
    elif sid == 3:
        from job_shop_lib import graphs
        for b in (graphs.build_disjunctive_graph, graphs.build_agent_task_graph,
                  graphs.build_complete_agent_task_graph, graphs.build_agent_task_graph_with_jobs):
            g = b(inst)
            g.remove_node(0)
            g.non_removed_nodes()
            _ = (g.nodes_by_machine, g.nodes_by_job, g.nodes_by_type, g.num_edges)
        if all(len(o.machines) == 1 for job in inst.jobs for o in job):
            from job_shop_lib.dispatching.rules import DispatchingRuleSolver
            graphs.build_solved_disjunctive_graph(DispatchingRuleSolver()(inst))
    elif sid == 4:
        from job_shop_lib import graphs
        from job_shop_lib.reinforcement_learning import SingleJobShopGraphEnv
        from job_shop_lib.dispatching.feature_observers import FeatureObserverType
        g = rng.choice([graphs.build_disjunctive_graph, graphs.build_agent_task_graph])(inst)
        types = rng.sample([FeatureObserverType.IS_READY, FeatureObserverType.DURATION,
                            FeatureObserverType.IS_SCHEDULED, FeatureObserverType.POSITION_IN_JOB,
                            FeatureObserverType.REMAINING_OPERATIONS, FeatureObserverType.IS_COMPLETED],
                           rng.randint(1, 4))
        env = SingleJobShopGraphEnv(job_shop_graph=g,
                                    feature_observer_configs=[DispatcherObserverConfig(t) for t in types])
        for _ in range(2):
            env.reset()
            done = False
            while not done:
                ops = env.dispatcher.available_operations()
                op = rng.choice(ops)
                _, _, done, _, _ = env.step((op.job_id, rng.choice(op.machines)))
    elif sid == 5:
        # graphs assembled by hand from the public building blocks, in orders the builders never use (machine /
        # job / global nodes BEFORE the operation nodes), then updated by a residual updater for a few dispatches
        from job_shop_lib import graphs
        from job_shop_lib.graphs import JobShopGraph
        from job_shop_lib.graphs.graph_updaters import ResidualGraphUpdater
        g = JobShopGraph(inst, add_operation_nodes=False)
        steps = [graphs.add_machine_nodes, graphs.add_job_nodes, graphs.add_global_node]
        rng.shuffle(steps)
        for st in steps[:rng.randint(1, 3)]:
            st(g)
        g.add_operation_nodes()
        if g.nodes_by_type[graphs.NodeType.MACHINE]:
            graphs.add_operation_machine_edges(g)
        if g.nodes_by_type[graphs.NodeType.JOB]:
            graphs.add_operation_job_edges(g)
        graphs.add_conjunctive_edges(g)
        d = Dispatcher(inst)
        ResidualGraphUpdater(d, g)
        for _ in range(rng.randint(1, 4)):
            ops = d.raw_ready_operations()
            if not ops:
                break
            op = rng.choice(ops)
            d.dispatch(op, rng.choice(op.machines))
    elif sid == 6:
        # observers attached in the MIDDLE of a history (their constructors catch up with the schedule)
        from job_shop_lib.dispatching.feature_observers import FeatureObserverType, feature_observer_factory
        d = Dispatcher(inst)
        attached = False
        while not d.schedule.is_complete():
            ops = d.raw_ready_operations()
            op = rng.choice(ops)
            d.dispatch(op, rng.choice(op.machines))
            if not attached and rng.random() < 0.4:
                attached = True
                UnscheduledOperationsObserver(d)
                for t in rng.sample(list(FeatureObserverType), rng.randint(2, 5)):
                    try:
                        feature_observer_factory(t, dispatcher=d)
                    except Exception:  # pylint: disable=broad-except
                        pass
        d.reset()
    else:
        raise ValueError(sid)


# --------------------------------------------------------------------------
# spec-side helpers of the judge (plain Python on the case, no library)
# --------------------------------------------------------------------------

def single_machine(spec):
    return all(len(ms) == 1 for job in spec for ms, _ in job)


def has_machines(spec):
    return all(len(ms) >= 1 for job in spec for ms, _ in job)


def is_flexible(spec):
    return any(len(ms) > 1 for job in spec for ms, _ in job)


def true_permutation(spec, seqs):
    """seqs[m] is a permutation of the job ids of the operations on machine m (single-machine spec)."""
    nm = common.num_machines_of(spec)
    if len(seqs) != nm:
        return False
    want = [[] for _ in range(nm)]
    for j, job in enumerate(spec):
        for ms, _ in job:
            want[ms[0]].append(j)
    return all(sorted(a) == sorted(b) for a, b in zip(want, seqs))


def acyclic(spec, seqs):
    """Kahn's algorithm on job order + machine order (single-machine spec, true permutation).
    The k-th occurrence of job j in seqs[m] is the k-th operation of j on machine m."""
    nxt = {}
    indeg = {}
    for j, job in enumerate(spec):
        for p in range(len(job)):
            indeg[(j, p)] = 0
            nxt[(j, p)] = []
    for j, job in enumerate(spec):
        for p in range(len(job) - 1):
            nxt[(j, p)].append((j, p + 1))
            indeg[(j, p + 1)] += 1
    for m, seq in enumerate(seqs):
        seen = {}
        prev = None
        for j in seq:
            k = seen.get(j, 0)
            seen[j] = k + 1
            pos = [p for p, (ms, _) in enumerate(spec[j]) if ms[0] == m][k]
            cur = (j, pos)
            if prev is not None:
                nxt[prev].append(cur)
                indeg[cur] += 1
            prev = cur
    todo = [k for k, v in indeg.items() if v == 0]
    n = 0
    while todo:
        k = todo.pop()
        n += 1
        for s in nxt[k]:
            indeg[s] -= 1
            if indeg[s] == 0:
                todo.append(s)
    return n == len(indeg)


# --------------------------------------------------------------------------
# generators
# --------------------------------------------------------------------------

def rand_json(rng, depth=0):
    r = rng.random()
    if depth > 1 or r < 0.4:
        return rng.choice([0, 1, -7, 12345, None, True, "x", "héllo wörld", "", 3.5])
    if r < 0.7:
        return [rand_json(rng, depth + 1) for _ in range(rng.randint(0, 3))]
    return {rng.choice(["a", "b", "optimum", "ré", "k 1"]): rand_json(rng, depth + 1) for _ in range(rng.randint(0, 3))}


def rand_meta(rng):
    if rng.random() < 0.3:
        return {}
    return {k: rand_json(rng) for k in rng.sample(["optimum", "lower_bound", "reference", "x_y", "ü"], rng.randint(1, 3))}


def rand_name(rng):
    return rng.choice(["JobShopInstance", "ft06", "", "a b", "näme.v1", "x" * 20, "0"])


def spread_machines(rng, spec):
    """Re-labels machine ids so that some ids are unused (gaps, also at 0)."""
    nm = common.num_machines_of(spec)
    if nm == 0:
        return spec
    labels = sorted(rng.sample(range(nm + 3), nm))
    if rng.random() < 0.5:
        rng.shuffle(labels)
    return [[[[labels[m] for m in ms], d] for ms, d in job] for job in spec]


def gen_spec(rng, corners=True, flexible=None, allow_empty=None):
    r = rng.random()
    if corners and r < 0.02:
        return []
    if corners and r < 0.04:
        return [[] for _ in range(rng.randint(1, 3))]
    if allow_empty is None:
        allow_empty = corners and rng.random() < 0.15
    spec = common.gen_instance(rng, max_jobs=5, max_machines=5, max_ops=5, allow_empty_jobs=allow_empty,
                               flexible=flexible, big=rng.random() < 0.2,
                               regular=rng.random() < 0.3, recirculation=rng.random() < 0.7)
    if rng.random() < 0.3:
        spec = spread_machines(rng, spec)
    if corners and is_flexible(spec) and rng.random() < 0.06:
        spec[0] = []                              # flexible instance whose FIRST job is empty
    if corners:
        ops = [(j, p) for j, job in enumerate(spec) for p in range(len(job))]
        if ops and rng.random() < 0.04:          # an operation without machines
            j, p = rng.choice(ops)
            spec[j][p][0] = []
        if ops and rng.random() < 0.05:          # a machine listed twice
            j, p = rng.choice(ops)
            if spec[j][p][0]:
                spec[j][p][0] = spec[j][p][0] + [spec[j][p][0][0]]
    return spec


def gen_history(rng, spec, partial=False):
    """A dispatch history [[job, machine], ...] (complete unless partial)."""
    jnext = [0] * len(spec)
    hist = []
    total = sum(len(j) for j in spec)
    stop = rng.randint(0, max(0, total - 1)) if partial else total
    while len(hist) < stop:
        jobs = [j for j, job in enumerate(spec) if jnext[j] < len(job)]
        j = rng.choice(jobs)
        ms = spec[j][jnext[j]][0]
        hist.append([j, rng.choice(ms)])
        jnext[j] += 1
    return hist


def seqs_of_history(spec, hist):
    nm = common.num_machines_of(spec)
    seqs = [[] for _ in range(nm)]
    for j, m in hist:
        seqs[m].append(j)
    return seqs


class C14(Check):
    pid = "C14"
    assumptions = [
        "integers (durations, machine ids) are below 2^24 so float32 cells are exact",
        "theorems about max_duration/max_duration_per_job/padded arrays assume what their definition needs: "
        "a non-empty instance, non-empty jobs (max of nothing is undefined; the library raises ValueError there, "
        "tied to the model); machines_matrix_array of a FLEXIBLE instance additionally assumes a non-empty "
        "FIRST job (the library reads len(matrix[0][0]) and raises IndexError otherwise — tied, counted in "
        "input_distribution as corner_flexible_first_job_empty)",
        "num_machines and the views built on it assume every operation has at least one machine "
        "(max(-1, *[]) is a TypeError in the library; tied)",
        "round trips of schedules are claimed for instances whose operations have exactly one machine and for "
        "complete dispatcher-built schedules; flexible / partial ones are tied to the model only",
        "accepted <=> acyclic is claimed for true per-machine permutations of single-machine instances; "
        "ill-formed sequences (wrong multiplicities, ids out of range, negative ids, wrong number of rows) are "
        "tied to the model, and the general theorems (never out of fuel, accepted => feasible and complete, "
        "rejected => IndexError or ValidationError) cover them",
    ]
    modelled_not_verified = [
        "modelled: JobShopInstance.set_operation_attributes, every cached view, to_dict, from_matrices, "
        "from_taillard_file (token level), Schedule.to_dict/from_dict/from_job_sequences (coq/model/Views.v) on "
        "top of the dispatcher model (coq/model/World.v) — tied by differential execution, not verified",
        "trusted lexing: str.strip/startswith/split/int, file I/O and os.path.basename of from_taillard_file "
        "(exercised through real temp files); json.dumps/json.loads (exercised on every round trip); numpy "
        "np.full/slice assignment/float32 (cells compared as exact integers, NaN as a marker)",
        "IMMUTABILITY clause: harness-only. In the functional model an instance cannot be modified, so a theorem "
        "would be vacuous; decided by deep snapshots (operation fields, list identities and contents, name, "
        "metadata, cached views) around a dispatcher with observers, a dispatching-rule solver, the CP-SAT solver, "
        "every graph builder and a SingleJobShopGraphEnv episode",
        "perm stream: for true per-machine permutations the model's verdict IS the specification "
        "(C14_true_permutation_outcome: accepted <=> a linear extension of job order + machine order exists, "
        "otherwise ValidationError), so impl == model decides the clause; a 30-line Kahn algorithm in the harness "
        "(not extracted) re-decides acyclicity independently; the textbook step 'acyclic <=> has a linear "
        "extension' is not formalised (theorem named _partial)",
    ]
    nontrivial_rule = ("views: >= 2 jobs and >= 3 operations; taillard/sched/perm: >= 2 jobs and >= 3 operations; "
                       "immut: the scenario ran to the end; distinct = distinct SHA1 of the whole case")

    def budget(self):
        return 6000 if self.tier == "quick" else 60000

    def search_budget(self):
        return 8000 if self.tier == "quick" else 60000

    # ---- generation ---------------------------------------------------------
    def gen_cases(self, rng, n):
        cases = []
        n_immut = min(max(10, n // 40), 400)
        for i in range(n):
            r = rng.random()
            if i < n_immut:
                kind = "immut"
            elif r < 0.38:
                kind = "views"
            elif r < 0.43:
                kind = "matrices"
            elif r < 0.55:
                kind = "taillard"
            elif r < 0.75:
                kind = "sched"
            else:
                kind = "perm"
            cases.append(getattr(self, "gen_" + kind)(rng))
            self.note("kind_" + kind)
        # bounded-exhaustive: ALL per-machine permutations of small single-machine instances
        n_inst, cap = (25, 40) if self.tier == "quick" else (300, 400)
        if n < 1000:
            n_inst = 3
        for _ in range(n_inst):
            cases.extend(self.gen_perm_exhaustive(rng, cap))
        return cases

    def gen_perm_exhaustive(self, rng, cap):
        import itertools

        spec = common.gen_instance(rng, max_jobs=3, max_machines=2, max_ops=3, flexible=False,
                                   zero=rng.random() < 0.5)
        nm = common.num_machines_of(spec)
        base = [[] for _ in range(nm)]
        for j, job in enumerate(spec):
            for ms, _ in job:
                base[ms[0]].append(j)
        rows = [sorted(set(itertools.permutations(b))) for b in base]
        combos = list(itertools.islice(itertools.product(*rows), 5000))
        if len(combos) > cap:
            combos = rng.sample(combos, cap)
        self.note("perm_exhaustive_instances")
        self.note("perm_exhaustive_cases", len(combos))
        self.note_spec(spec)
        return [{"kind": "perm", "spec": spec, "seqs": [list(r) for r in c], "variant": "exhaustive"}
                for c in combos]

    def note_spec(self, spec):
        st = common.instance_stats(spec)
        for k in ("flexible", "zero", "empty_job"):
            if st[k]:
                self.note("inst_" + k)
        self.note("ops_total", st["ops"])
        if not spec:
            self.note("inst_empty")
        if not has_machines(spec):
            self.note("inst_op_without_machine")
        if is_flexible(spec) and spec and not spec[0]:
            self.note("corner_flexible_first_job_empty")
        used = {m for job in spec for ms, _ in job for m in ms}
        if used and len(used) < max(used) + 1:
            self.note("inst_unused_machine_id")

    def gen_views(self, rng):
        spec = gen_spec(rng)
        self.note_spec(spec)
        return {"kind": "views", "spec": spec, "name": rand_name(rng), "meta": rand_meta(rng),
                "ints": rng.random() < 0.5}

    def gen_matrices(self, rng):
        spec = gen_spec(rng, corners=False)
        dur = [[d for _, d in job] for job in spec]
        mach = [[(ms[0] if len(ms) == 1 and rng.random() < 0.5 else ms) for ms, _ in job] for job in spec]
        r = rng.random()
        if r < 0.25 and mach:
            mach.pop()
            self.note("matrices_short_rows")
        elif r < 0.5 and mach:
            j = rng.randrange(len(mach))
            if mach[j]:
                mach[j].pop()
                self.note("matrices_short_row")
        elif r < 0.7 and mach:
            j = rng.randrange(len(mach))
            mach[j].append(rng.randint(0, 3))
            mach.append([0, 1])
            self.note("matrices_long")
        return {"kind": "matrices", "dur": dur, "mach": mach}

    def gen_taillard(self, rng):
        malformed = rng.random() < 0.25
        spec = gen_spec(rng, corners=False, flexible=False, allow_empty=rng.random() < 0.1)
        self.note_spec(spec)
        c = rng.randint(0, 3)
        lines = [[0, []] for _ in range(c)]
        lines.append([1, [len(spec), common.num_machines_of(spec)]])
        for job in spec:
            lines.append([1, [x for ms, d in job for x in (ms[0], d)]])
        if malformed:
            self.note("taillard_malformed")
            for _ in range(rng.randint(1, 3)):
                r = rng.random()
                i = rng.randrange(len(lines) + 1)
                if r < 0.4:
                    lines.insert(i, [0, []])                       # a comment anywhere
                elif r < 0.6:
                    lines.insert(i, [1, []])                       # a blank line
                elif r < 0.8 and lines:
                    i = rng.randrange(len(lines))
                    if lines[i][0] == 1:
                        lines[i] = [1, lines[i][1] + [rng.randint(0, 9)]]   # odd number of tokens
                else:
                    lines.insert(i, [1, [rng.randint(0, 4) for _ in range(rng.randint(1, 5))]])
        return {"kind": "taillard", "spec": spec, "comments": c, "lines": lines, "malformed": malformed,
                "seed": rng.randrange(10 ** 9), "meta": rand_meta(rng),
                "name": rng.choice([None, None, "given name", "given name", ""])}   # "" is a name too

    def gen_sched(self, rng):
        spec = gen_spec(rng, corners=False, flexible=(None if rng.random() < 0.3 else False))
        partial = rng.random() < 0.12
        hist = gen_history(rng, spec, partial)
        self.note_spec(spec)
        self.note("sched_partial", 1 if partial else 0)
        self.note("sched_dispatches", len(hist))
        return {"kind": "sched", "spec": spec, "hist": hist, "name": rand_name(rng), "meta": rand_meta(rng),
                "smeta": rand_meta(rng)}

    def gen_perm(self, rng):
        spec = gen_spec(rng, corners=False, flexible=(None if rng.random() < 0.15 else False))
        hist = gen_history(rng, spec)
        seqs = seqs_of_history(spec, hist)
        r = rng.random()
        if r < 0.25:
            variant = "valid"
        elif r < 0.55:
            variant = "shuffled"
            for s in seqs:
                rng.shuffle(s)
        elif r < 0.65:
            variant = "reversed"
            ms = [m for m, s in enumerate(seqs) if len(s) >= 2]
            for m in rng.sample(ms, rng.randint(1, len(ms))) if ms else []:
                seqs[m].reverse()
        elif r < 0.8:
            variant = "swapped"
            for _ in range(rng.randint(1, 2)):
                cand = [m for m, s in enumerate(seqs) if len(s) >= 2]
                if cand:
                    m = rng.choice(cand)
                    i = rng.randrange(len(seqs[m]) - 1)
                    seqs[m][i], seqs[m][i + 1] = seqs[m][i + 1], seqs[m][i]
        else:
            variant = "illformed"
            q = rng.random()
            nonempty = [m for m, s in enumerate(seqs) if s]
            if q < 0.2 and nonempty:
                m = rng.choice(nonempty)
                seqs[m].pop(rng.randrange(len(seqs[m])))
            elif q < 0.4 and nonempty:
                m = rng.choice(nonempty)
                seqs[m].insert(rng.randrange(len(seqs[m]) + 1), rng.choice(seqs[m]))
            elif q < 0.55 and nonempty:
                m = rng.choice(nonempty)
                seqs[m][rng.randrange(len(seqs[m]))] = len(spec) + rng.randint(0, 2)
            elif q < 0.7 and nonempty:
                m = rng.choice(nonempty)
                i = rng.randrange(len(seqs[m]))
                seqs[m][i] = seqs[m][i] - len(spec)            # Python wraps negative indices
            elif q < 0.8:
                seqs.append([rng.randrange(len(spec))])
            elif q < 0.9 and seqs:
                seqs.pop()
            else:
                seqs = [s + [rng.randrange(len(spec))] for s in seqs]
        self.note_spec(spec)
        self.note("perm_" + variant)
        return {"kind": "perm", "spec": spec, "seqs": seqs, "variant": variant}

    def gen_immut(self, rng):
        sid = rng.randrange(7)
        if sid == 2:
            spec = common.gen_instance(rng, max_jobs=3, max_machines=3, max_ops=3, flexible=False, zero=False)
        else:
            spec = gen_spec(rng, corners=False, flexible=(None if sid in (0, 1, 5, 6) else False))
        self.note_spec(spec)
        self.note("immut_scenario_%d" % sid)
        return {"kind": "immut", "scenario": sid, "spec": spec, "seed": rng.randrange(10 ** 9),
                "meta": rand_meta(rng)}

    # ---- implementation -----------------------------------------------------
    def run_impl(self, case):
        common.import_impl()
        return getattr(self, "impl_" + case["kind"])(case)

    def impl_views(self, case):
        from job_shop_lib import JobShopInstance

        inst = build(case["spec"], case["name"], case["meta"], case["ints"])
        views = views_of(inst)
        again = views_of(inst)                 # cached values: asking twice changes nothing
        dct = res(inst.to_dict)
        rt = []
        if dct[0] == 0:
            d2 = json.loads(json.dumps(dct[1]))
            same_json = d2 == dct[1]
            dct = [0, [d2["duration_matrix"], d2["machines_matrix"]]]

            def rebuild():
                d3 = copy.deepcopy(d2)
                new = JobShopInstance.from_matrices(**d3)
                # the caller goes on using (and editing) the matrices it passed in: the instance must not care
                for row in d3["duration_matrix"]:
                    for i in range(len(row)):
                        row[i] = row[i] + 1
                for row in d3["machines_matrix"]:
                    for i in range(len(row)):
                        row[i] = [0] if isinstance(row[i], list) else 0
                return [common.spec_of_instance(new), new.name == case["name"], new.metadata == case["meta"],
                        [[[o.job_id, o.position_in_job, o.operation_id] for o in job] for job in new.jobs],
                        same_json, views_of(new) == views]
            rt = res(rebuild)
        return common.norm([views, again == views, dct, rt])

    def impl_matrices(self, case):
        from job_shop_lib import JobShopInstance

        return common.norm(res(lambda: common.spec_of_instance(
            JobShopInstance.from_matrices(copy.deepcopy(case["dur"]), copy.deepcopy(case["mach"])))))

    def impl_taillard(self, case):
        from job_shop_lib import JobShopInstance

        rng = random.Random(case["seed"])
        os.makedirs(SCRATCH, exist_ok=True)
        base = "c14-%d-%d" % (os.getpid(), case["seed"])
        path = os.path.join(SCRATCH, base + ".txt")
        text = []
        for tag, toks in case["lines"]:
            if tag == 0:
                text.append(rng.choice(["# comment", "#", "  # 1 2 3", "#\t7"]))
            else:
                sep = rng.choice([" ", "  ", "\t"])
                text.append(rng.choice(["", " "]) + sep.join(str(t) for t in toks) + rng.choice(["", " ", "\t"]))
        try:
            with open(path, "w", encoding="utf-8") as f:
                f.write("\n".join(text) + "\n")
            kw = {} if case["name"] is None else {"name": case["name"]}

            def load():
                inst = JobShopInstance.from_taillard_file(path, **kw, **case["meta"])
                want = base if case["name"] is None else case["name"]
                return [common.spec_of_instance(inst), inst.name == want, inst.metadata == case["meta"]]
            return common.norm(res(load))
        finally:
            if os.path.exists(path):
                os.remove(path)

    def impl_sched(self, case):
        from job_shop_lib import Schedule
        from job_shop_lib.dispatching import Dispatcher

        inst = build(case["spec"], case["name"], case["meta"])
        d = Dispatcher(inst)
        for j, m in case["hist"]:
            d.dispatch(inst.jobs[j][d.job_next_operation_index[j]], m)
        sched = d.schedule
        sched.metadata = copy.deepcopy(case["smeta"])
        rows0 = rows_of(sched)
        dd = json.loads(json.dumps(sched.to_dict()))
        seqs = dd["job_sequences"]

        def via_dict():
            s = Schedule.from_dict(**copy.deepcopy(dd))
            return [rows_of(s), common.spec_of_instance(s.instance), s.instance.name == case["name"],
                    s.instance.metadata == case["meta"], s.metadata == case["smeta"]]

        def via_seqs():
            return rows_of(Schedule.from_job_sequences(inst, copy.deepcopy(seqs)))

        def via_dict_obj():
            s = Schedule.from_dict(inst, copy.deepcopy(seqs), copy.deepcopy(case["smeta"]))
            return [rows_of(s), s.instance is inst, s.metadata == case["smeta"]]

        return common.norm([rows0, seqs, [dd["instance"]["duration_matrix"], dd["instance"]["machines_matrix"]],
                            guarded(via_dict), guarded(via_seqs), guarded(via_dict_obj)])

    def impl_perm(self, case):
        from job_shop_lib import Schedule

        inst = build(case["spec"])
        seqs = copy.deepcopy(case["seqs"])
        out = guarded(lambda: rows_of(Schedule.from_job_sequences(inst, seqs)))
        return common.norm([out, seqs == case["seqs"]])

    def impl_immut(self, case):
        rng = random.Random(case["seed"])
        inst = build(case["spec"], "immut", case["meta"])
        first = views_of(inst)                     # fills the cache
        before = deep_snapshot(inst)
        raised = 0
        old = signal.signal(signal.SIGALRM, _alarm)
        signal.setitimer(signal.ITIMER_REAL, 20.0)
        try:
            scenario(case["scenario"], inst, rng)
        except _Timeout:
            raised = 2
        except Exception:  # pylint: disable=broad-except
            raised = 1
        finally:
            signal.setitimer(signal.ITIMER_REAL, 0)
            signal.signal(signal.SIGALRM, old)
        after = deep_snapshot(inst)
        diffs = [i for i, (a, b) in enumerate(zip(before, after)) if a != b]
        fresh = views_of(build(case["spec"], "immut", case["meta"]))
        return [diffs, raised, 1 if views_of(inst) == first == fresh else 0]

    # ---- model ----------------------------------------------------------------
    def model_requests(self, case, obs):
        k = case["kind"]
        if k == "views":
            views, _, dct, rt = obs
            reqs = [(1401, case["spec"]), (1402, case["spec"]), (1404, case["spec"])]
            maxq = []
            if views[10][0] == 0:
                maxq.append([views[10][1], [d for job in case["spec"] for _, d in job]])
            if views[11][0] == 0:
                for x, job in zip(views[11][1], case["spec"]):
                    maxq.append([x, [d for _, d in job]])
            reqs.append((1403, maxq))
            if dct[0] == 0:
                reqs.append((1405, dct[1]))
            return reqs
        if k == "matrices":
            return [(1405, [case["dur"], case["mach"]])]
        if k == "taillard":
            return [(1406, case["lines"]), (1407, [case["comments"], case["spec"]])]
        if k == "sched":
            rows0, seqs, dm, r1, r2, r3 = obs
            events = [[0, j, None, [m]] for j, m in case["hist"]]
            jn = [0] * len(case["spec"])
            for e in events:
                e[2] = jn[e[1]]
                jn[e[1]] += 1
            reqs = [(1, [case["spec"], [], events + [[7]]]), (1409, rows0), (1408, [case["spec"], seqs]),
                    (1410, [dm[0], dm[1], seqs])]
            rebuilt = [r[1][0] if r is r1 or r is r3 else r[1] for r in (r1, r2, r3) if r[0] == 0]
            reqs.append((3, [case["spec"], rebuilt]))
            return reqs
        if k == "perm":
            reqs = [(1408, [case["spec"], case["seqs"]])]
            if obs[0][0] == 0:
                reqs.append((3, [case["spec"], [obs[0][1]]]))
            return reqs
        return []

    # ---- judge ------------------------------------------------------------------
    def judge(self, case, obs, outs):
        return getattr(self, "judge_" + case["kind"])(case, obs, outs)

    def judge_views(self, case, obs, outs):
        fails = []
        spec = case["spec"]
        views, stable, dct, rt = obs
        model_views, sp, model_dict, maxes = outs[0], outs[1], outs[2], outs[3]
        flat = flatten_views(views)
        for i, (a, b) in enumerate(zip(flat, model_views)):
            if a != b:
                fails.append(Failure("tie", "view-impl-vs-model:" + VIEW_NAMES[i],
                                     f"{VIEW_NAMES[i]}: implementation and model differ", expected=b, observed=a))
        if not stable:
            fails.append(Failure("oracle", "view-unstable", "asking the views a second time gave different values"))
        if dct != model_dict:
            fails.append(Failure("tie", "to_dict-impl-vs-model", "to_dict: implementation and model differ",
                                 expected=model_dict, observed=dct))

        def want(i, value, why):
            if views[i] != [0, value]:
                fails.append(Failure("oracle", "view-vs-definition:" + VIEW_NAMES[i],
                                     f"{VIEW_NAMES[i]} differs from its definition ({why})",
                                     expected=value, observed=views[i]))

        hm = has_machines(spec)
        flex = is_flexible(spec)
        nonempty_jobs = bool(spec) and all(len(j) > 0 for j in spec)
        ids = sp[0]
        want(0, [[ids[sum(len(x) for x in spec[:j]) + p] for p in range(len(job))] for j, job in enumerate(spec)],
             "job id, position, dense job-major operation id")
        if [k[2] for k in ids] != list(range(len(ids))):
            fails.append(Failure("oracle", "op-id-not-dense", "spec ids are not 0..N-1", observed=ids))
        want(1, sp[1], "number of jobs")
        if hm:
            want(2, sp[2], "largest machine id + 1")
        want(3, sp[3], "number of operations")
        want(4, 1 if flex else 0, "some operation has more than one machine")
        want(5, [[d for _, d in job] for job in spec], "durations, job-major")
        if flex:
            want(6, [[ms for ms, _ in job] for job in spec], "machine lists, job-major")
        elif hm:
            want(6, [[ms[0] for ms, _ in job] for job in spec], "machine ids, job-major")
        if spec:
            want(7, sp[4], "durations padded with NaN to the longest job")
        if spec and not flex and hm:
            want(8, [2, sp[5]], "machine ids padded with NaN to the longest job")
        if flex and spec and spec[0] and hm:
            want(8, [3, sp[6]], "machine lists padded with NaN (jobs x longest job x longest machine list)")
        if hm:
            want(9, sp[7], "operations of each machine, job-major, once per listing")
            want(12, sp[8], "largest duration among the machine's operations (0 if none)")
            want(14, sp[9], "sum of the durations of the machine's operations")
        want(13, [sum(d for _, d in job) for job in spec], "sum of the job's durations")
        want(15, sp[10], "sum of all durations")
        if nonempty_jobs:
            mi = 0
            if views[10][0] != 0 or not maxes[mi]:
                fails.append(Failure("oracle", "view-vs-definition:max_duration",
                                     "max_duration is not the greatest duration", observed=views[10]))
            mi += 1
            if views[11][0] != 0 or not all(maxes[mi:]):
                fails.append(Failure("oracle", "view-vs-definition:max_duration_per_job",
                                     "max_duration_per_job is not the greatest duration of each job",
                                     observed=views[11]))
        # round trip through the dictionary and JSON
        if flex or single_machine(spec):
            if dct[0] != 0 or not rt or rt[0] != 0:
                fails.append(Failure("oracle", "roundtrip-dict-raises",
                                     "to_dict / from_matrices raised on a well-formed instance",
                                     observed=[dct, rt]))
            else:
                new_spec, name_ok, meta_ok, new_ids, same_json, views_ok = rt[1]
                if not views_ok:
                    fails.append(Failure("oracle", "roundtrip-dict-views",
                                         "the derived views of from_matrices(json(to_dict(I))) differ from those of I "
                                         "(also after the caller edited the matrices it had passed in)"))
                if new_spec != common.norm(spec) or not name_ok or not meta_ok or not same_json or new_ids != views[0][1]:
                    fails.append(Failure("oracle", "roundtrip-dict",
                                         "from_matrices(json(to_dict(I))) differs from I "
                                         "(operations, name, metadata, ids, json fidelity)",
                                         expected=[spec, 1, 1, views[0][1], 1], observed=rt[1]))
        if dct[0] == 0 and rt:
            m5 = outs[4]
            mine = [0, rt[1][0]] if rt[0] == 0 else rt
            if mine != m5:
                fails.append(Failure("tie", "from_matrices-impl-vs-model",
                                     "from_matrices: implementation and model differ", expected=m5, observed=mine))
        return fails

    def judge_matrices(self, case, obs, outs):
        if obs != outs[0]:
            return [Failure("tie", "from_matrices-impl-vs-model", "from_matrices: implementation and model differ",
                            expected=outs[0], observed=obs)]
        return []

    def judge_taillard(self, case, obs, outs):
        fails = []
        parsed, printed = outs
        mine = obs[1][0] if obs[0] == 0 else obs
        if mine != parsed:
            fails.append(Failure("tie", "taillard-impl-vs-model", "from_taillard_file: implementation and model differ",
                                 expected=parsed, observed=mine))
        if not case["malformed"]:
            if printed != case["lines"]:
                fails.append(Failure("tie", "taillard-printer", "the harness printer and print_taillard differ",
                                     expected=printed, observed=case["lines"]))
            if obs[0] != 0 or obs[1][0] != common.norm(case["spec"]):
                fails.append(Failure("oracle", "roundtrip-taillard",
                                     "parsing the printed instance does not give the instance back",
                                     expected=case["spec"], observed=obs))
        if obs[0] == 0 and not (obs[1][1] and obs[1][2]):
            fails.append(Failure("oracle", "roundtrip-taillard-name-metadata",
                                 "name / metadata of the loaded instance are not the ones given", observed=obs[1][1:]))
        return fails

    def judge_sched(self, case, obs, outs):
        fails = []
        spec = case["spec"]
        rows0, seqs, dm, r1, r2, r3 = obs
        sess, m_seqs, m_fjs, m_fd, feas = outs
        if sess[-1][0][3] != rows0:
            fails.append(Failure("tie", "dispatcher-impl-vs-model", "dispatcher rows differ from the model's",
                                 expected=sess[-1][0][3], observed=rows0))
        if m_seqs != seqs:
            fails.append(Failure("tie", "job_sequences-impl-vs-model", "to_dict job_sequences differ",
                                 expected=m_seqs, observed=seqs))
        if m_fjs == [OUT_OF_FUEL] or m_fd == [OUT_OF_FUEL]:
            fails.append(Failure("tie", "model-out-of-fuel", "the model ran out of fuel (contradicts C14_fuel)"))
        if r2 != m_fjs:
            fails.append(Failure("tie", "from_job_sequences-impl-vs-model", "from_job_sequences differs",
                                 expected=m_fjs, observed=r2))
        mine = [0, r1[1][1], r1[1][0]] if r1[0] == 0 else r1
        if mine != m_fd:
            fails.append(Failure("tie", "from_dict-impl-vs-model", "Schedule.from_dict differs",
                                 expected=m_fd, observed=mine))
        for r, what in ((r1, "from_dict(dict)"), (r2, "from_job_sequences"), (r3, "from_dict(instance)")):
            if r[0] == HANG:
                fails.append(Failure("oracle", "hang", what + " did not return within the time limit"))
        fi = 0
        for r, what in ((r1, "from_dict(dict)"), (r2, "from_job_sequences"), (r3, "from_dict(instance)")):
            if r[0] == 0:
                cl = feas[fi]
                fi += 1
                for name, ok in zip(CLAUSES, cl):
                    if not ok:
                        fails.append(Failure("oracle", "rebuilt-feasible:" + name,
                                             f"{what}: the rebuilt schedule violates '{name}'", observed=r[1]))
        complete = len(case["hist"]) == sum(len(j) for j in spec)
        if single_machine(spec) and complete:
            if r2 != [0, rows0]:
                fails.append(Failure("oracle", "roundtrip-job-sequences",
                                     "from_job_sequences(I, job sequences of S) is not S", expected=rows0, observed=r2))
            if r1[0] != 0 or r1[1][0] != rows0 or r1[1][1] != common.norm(spec) or not all(r1[1][2:]):
                fails.append(Failure("oracle", "roundtrip-schedule-dict",
                                     "from_dict(json(to_dict(S))) is not S (rows, instance, name, metadata)",
                                     expected=rows0, observed=r1))
            if r3[0] != 0 or r3[1][0] != rows0 or not all(r3[1][1:]):
                fails.append(Failure("oracle", "roundtrip-schedule-dict",
                                     "from_dict(instance, job sequences, metadata) is not S",
                                     expected=rows0, observed=r3))
        return fails

    def judge_perm(self, case, obs, outs):
        fails = []
        spec, seqs = case["spec"], case["seqs"]
        out, untouched = obs
        if out != outs[0]:
            fails.append(Failure("tie", "from_job_sequences-impl-vs-model", "from_job_sequences differs",
                                 expected=outs[0], observed=out))
        if outs[0] == [OUT_OF_FUEL]:
            fails.append(Failure("tie", "model-out-of-fuel", "the model ran out of fuel (contradicts C14_fuel)"))
        if out[0] == HANG:
            fails.append(Failure("oracle", "hang", "from_job_sequences did not return within the time limit"))
        if not untouched:
            fails.append(Failure("oracle", "argument-mutated", "from_job_sequences modified its job_sequences argument"))
        if out[0] == 0:
            for name, ok in zip(CLAUSES, outs[1][0]):
                if not ok:
                    fails.append(Failure("oracle", "accepted-feasible:" + name,
                                         f"accepted job sequences gave a schedule violating '{name}'", observed=out[1]))
        self.note("perm_outcome_" + {0: "accepted", 1: "validation_error", 3: "index_error"}.get(out[0], str(out[0])))
        if single_machine(spec) and true_permutation(spec, seqs):
            ok = acyclic(spec, seqs)
            self.note("perm_true_permutation_" + ("acyclic" if ok else "cyclic"))
            if ok and out[0] != 0:
                fails.append(Failure("oracle", "acyclic-rejected", "acyclic job sequences were rejected", observed=out))
            if not ok and out != [1]:
                fails.append(Failure("oracle", "cyclic-not-validation-error",
                                     "job sequences that admit no schedule were not rejected with ValidationError",
                                     observed=out))
            if ok and out[0] == 0 and [[x[0] for x in row] for row in out[1]] != seqs:
                fails.append(Failure("oracle", "accepted-other-sequences",
                                     "the accepted schedule does not have the requested job sequences", observed=out[1]))
        return fails

    def judge_immut(self, case, obs, outs):
        diffs, raised, views_ok = obs
        fails = []
        self.note("immut_consumer_" + {0: "finished", 1: "raised", 2: "timed_out"}[raised])
        for i in diffs:
            fails.append(Failure("oracle", "instance-mutated:" + SNAP_FIELDS[i],
                                 f"scenario {case['scenario']} changed the instance ({SNAP_FIELDS[i]})"))
        if not views_ok:
            fails.append(Failure("oracle", "instance-mutated:views",
                                 f"scenario {case['scenario']}: views differ from those of a fresh instance"))
        return fails

    # ---- evidence -----------------------------------------------------------------
    def nontrivial(self, case, obs):
        if case["kind"] == "immut":
            return obs[1] == 0
        if case["kind"] == "matrices":
            return len(case["dur"]) >= 2
        spec = case["spec"]
        return len(spec) >= 2 and sum(len(j) for j in spec) >= 3

    def shrink_candidates(self, case):
        if "spec" not in case or case["kind"] == "taillard":
            return
        spec = case["spec"]
        kind = case["kind"]
        if kind in ("views", "immut"):
            for j in range(len(spec)):
                yield dict(case, spec=spec[:j] + spec[j + 1:])
            for j, job in enumerate(spec):
                if job:
                    yield dict(case, spec=spec[:j] + [job[:-1]] + spec[j + 1:])
        if kind == "perm" and len(spec) > 1:
            j = len(spec) - 1                      # drop the last job and its entries
            yield dict(case, spec=spec[:-1], seqs=[[x for x in s if x != j] for s in case["seqs"]])
        if kind == "sched" and len(spec) > 1:
            j = len(spec) - 1
            yield dict(case, spec=spec[:-1], hist=[h for h in case["hist"] if h[0] != j])
        if kind == "sched" and case["hist"]:
            yield dict(case, hist=case["hist"][:-1])
        for j, job in enumerate(spec):
            for p, (ms, d) in enumerate(job):
                if d > 1:
                    s2 = copy.deepcopy(spec)
                    s2[j][p][1] = 1
                    yield dict(case, spec=s2)


CHECK = C14
