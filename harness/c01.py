"""C01 — every dispatch history yields a feasible schedule."""
from .framework import Failure
from .sessioncheck import SessionCheck, CLAUSES


class C01(SessionCheck):
    pid = "C01"
    inst_kwargs = dict(allow_empty_jobs=True, huge=True)
    gen_kwargs = dict(p_invalid=0.15, p_query=0.05, p_reset=0.03, p_snapshot=1.0, p_copy=0.06)
    assumptions = ["requests name operations of the dispatcher's own instance",
                   "valid instance: durations >= 0 (the property's own scope)"]
    modelled_not_verified = [
        "modelled: Dispatcher.dispatch/reset, Schedule.add/is_complete, ScheduledOperation.__init__ "
        "(coq/model/World.v) — tied by differential execution of event scripts, not verified"]

    def gen_cases(self, rng, n):
        cases = super().gen_cases(rng, n)
        # one LARGE instance per run (more than 256 operations): "complete after exactly one accepted dispatch per
        # operation" for counts beyond the small integers; sparsely observed to keep the case small
        from . import common, gen

        for _ in range(1 if self.tier == "quick" else 4):
            nj = rng.randint(86, 100)
            spec = [[[[rng.randrange(4)], rng.randint(0, 3)] for _ in range(3)] for _ in range(nj)]
            events, _stats = gen.gen_session(rng, spec, p_snapshot=0.02, max_events=3 * nj + 40, stop_early=0.0,
                                             p_copy=0.06)
            cases.append({"spec": spec, "filters": [], "events": events})
            self.note("large_instance_more_than_256_operations")
        return cases

    def judge(self, case, obs, outs):
        model_out, clauses = outs
        fails = self.tie_failures(case, obs, model_out)
        accepted = 0
        total = sum(len(j) for j in case["spec"])
        snaps = self.snapshots(case, obs)
        ci = 0
        for i, (ev, o) in enumerate(zip(case["events"], obs)):
            if ev[0] == 0 and o and o[0] == 0:
                accepted += 1
            elif ev[0] == 2 and o and o[0] == 0:
                accepted = 0
            elif ev[0] == 7:
                cl = clauses[ci]
                ci += 1
                for name, ok in zip(CLAUSES[:7], cl[:7]):
                    if not ok:
                        fails.append(Failure("oracle", "feasible:" + name,
                                             f"snapshot at event #{i}: schedule rows violate '{name}'",
                                             observed=o[0][3]))
                is_complete = bool(o[1])
                if accepted == total and not (is_complete and cl[7]):
                    fails.append(Failure("oracle", "complete-after-N",
                                         f"event #{i}: {accepted} accepted dispatches = all operations, "
                                         f"but is_complete={is_complete}, every-operation-present={bool(cl[7])}"))
                if is_complete != bool(cl[7]):
                    fails.append(Failure("oracle", "is_complete-iff-all-present",
                                         f"event #{i}: is_complete()={is_complete} but every operation "
                                         f"present={bool(cl[7])}"))
        return fails


CHECK = C01
