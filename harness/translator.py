"""Kernel translator (DESIGN 3.4): a second, for-all-inputs tie for a fixed list of straight-line integer kernels.

On every run the current source of each kernel is parsed with `ast`, translated to a Gallina expression (fail-closed:
anything outside the small accepted fragment makes the kernel fall back to the sampled correspondence and is recorded,
never an alarm), and a generated lemma `gen_<k> = <the model's own term>` is checked by coqc with one fixed tactic.
A kernel that translates but whose lemma no longer checks is a broken proof obligation (reported like a broken
correspondence)."""
from __future__ import annotations

import ast
import os
import subprocess

from . import common

COQ = os.path.join(common.VERIF, "coq")

HEADER = """From JSL Require Import Base Instance Dstate Filters World Observers.
From Coq Require Import Lia ZifyBool ZifyNat.
Open Scope Z_scope.
"""
TACTIC = """Ltac kernel :=
  intros; cbv beta delta [%(unfold)s] ; %(cbn)s
  repeat (match goal with
          | |- context [match ?o with Some _ => _ | None => _ end] => destruct o eqn:?
          | |- context [if ?b then _ else _] => destruct b eqn:?
          end);
  first [ reflexivity
        | lia
        | apply Bool.eq_iff_eq_true;
          rewrite ?Bool.negb_true_iff, ?Bool.andb_true_iff, ?Bool.orb_true_iff, ?Z.ltb_lt, ?Nat.ltb_lt, ?Z.leb_le,
                  ?Nat.leb_le, ?Z.eqb_eq, ?Nat.eqb_eq, ?Z.ltb_ge, ?Z.leb_gt, ?Z.eqb_neq; lia
        | f_equal; lia ].
"""


class Untranslatable(Exception):
    pass


class OrderBroken(Exception):
    """a side condition of the model's abstraction no longer holds in the source (program kernels)"""


# name -> description. leaves: python source text of an attribute/subscript/call chain -> (Coq term, "Z"|"nat")
KERNELS = [
    dict(name="start_time", file="job_shop_lib/dispatching/_dispatcher.py", cls="Dispatcher", fn="start_time",
         params="(d : dstate) (j m : nat)", args="d j m", rtype="Z",
         leaves={"self._machine_next_available_time[machine_id]": ("nthZ (mfree d) m", "Z"),
                 "self._job_next_available_time[operation.job_id]": ("nthZ (jfree d) j", "Z")},
         model="start_time d j m", unfold="start_time",
         props=["C01", "C02", "C06", "C07", "C08"]),
    dict(name="is_operation_ready", file="job_shop_lib/dispatching/_dispatcher.py", cls="Dispatcher",
         fn="is_operation_ready", params="(d : dstate) (j p : nat)", args="d j p", rtype="bool",
         leaves={"self._job_next_operation_index[operation.job_id]": ("nthN (jnext d) j", "nat"),
                 "operation.position_in_job": ("p", "nat")},
         model="(nthN (jnext d) j =? p)%nat", unfold="",
         props=["C01", "C09"]),
    dict(name="is_scheduled", file="job_shop_lib/dispatching/_dispatcher.py", cls="Dispatcher", fn="is_scheduled",
         params="(d : dstate) (j p : nat)", args="d j p", rtype="bool",
         leaves={"self._job_next_operation_index[operation.job_id]": ("nthN (jnext d) j", "nat"),
                 "operation.position_in_job": ("p", "nat")},
         model="(p <? nthN (jnext d) j)%nat", unfold="",
         props=["C05"]),
    dict(name="is_ongoing", file="job_shop_lib/dispatching/_dispatcher.py", cls="Dispatcher", fn="is_ongoing",
         params="(x : sop) (now : Z)", args="x now", rtype="bool",
         leaves={"self.current_time()": ("now", "Z"), "scheduled_operation.start_time": ("s_start x", "Z")},
         model="(s_start x <=? now)", unfold="",
         props=["C05"]),
    dict(name="remaining_duration", file="job_shop_lib/dispatching/_dispatcher.py", cls="Dispatcher",
         fn="remaining_duration", params="(I : instance) (x : sop) (now : Z)", args="I x now", rtype="Z",
         leaves={"self.current_time()": ("now", "Z"), "scheduled_operation.start_time": ("s_start x", "Z"),
                 "scheduled_operation.end_time": ("s_end I x", "Z")},
         model="s_end I x - Z.max (s_start x) now", unfold="",
         props=["C05", "C11"]),
    dict(name="end_time", file="job_shop_lib/_scheduled_operation.py", cls="ScheduledOperation", fn="end_time",
         params="(I : instance) (x : sop)", args="I x", rtype="Z",
         leaves={"self.start_time": ("s_start x", "Z"), "self.operation.duration": ("dur I x", "Z")},
         model="s_end I x", unfold="s_end",
         props=["C01", "C02", "C13"]),
    dict(name="is_valid_start_time", file="job_shop_lib/_schedule.py", cls="Schedule", fn="_is_valid_start_time",
         params="(I : instance) (y x : sop)", args="I y x", rtype="bool",
         leaves={"previous_operation.end_time": ("s_end I y", "Z"), "scheduled_operation.start_time": ("s_start x", "Z")},
         model="(s_end I y <=? s_start x)", unfold="",
         props=["C01"]),
    dict(name="makespan_reward_update", file="job_shop_lib/reinforcement_learning/_reward_observers.py",
         cls="MakespanReward", fn="update", params="(cur e : Z)", args="cur e", rtype="Z * Z",
         leaves={"self.current_makespan": ("cur", "Z"), "scheduled_operation.end_time": ("e", "Z")},
         outputs=["append:self.rewards", "store:self.current_makespan"],
         model="(cur - Z.max cur e, Z.max cur e)", unfold="",
         props=["C13"]),
    # IdleTimeReward.update: the row of the machine without the operation just added, its last element, the gap
    dict(name="idle_time_reward_update", file="job_shop_lib/reinforcement_learning/_reward_observers.py",
         cls="IdleTimeReward", fn="update", imports="Feasible",
         params="(has_prev : bool) (prev_end st : Z)", args="I x row", rtype="Z",
         expected={"machine_id": "scheduled_operation.machine_id",
                   "machine_schedule": "self.dispatcher.schedule.schedule[machine_id][:-1]",
                   "last_operation": "machine_schedule[-1]"},
         leaves={"machine_schedule": ("has_prev", "bool"), "last_operation.end_time": ("prev_end", "Z"),
                 "scheduled_operation.start_time": ("st", "Z")},
         outputs=["append:self.rewards"],
         call="gen_k (match last_opt row with Some _ => true | None => false end) "
              "(match last_opt row with Some y => s_end I y | None => 0 end) (s_start x)",
         quant="(I : instance) (x : sop) (row : list sop)",
         model="- (match last_opt row with Some y => s_start x - s_end I y | None => s_start x end)", unfold="",
         props=["C13"]),
    # the action-space expression inside SingleJobShopGraphEnv.__init__:
    #   self.action_space = gym.spaces.MultiDiscrete([<nvec...>], start=[<start...>])
    dict(name="action_space", file="job_shop_lib/reinforcement_learning/_single_job_shop_graph_env.py",
         cls="SingleJobShopGraphEnv", fn="__init__", assign_target="self.action_space",
         imports="EnvSpaces", params="(I : instance)", args="I", rtype="list Z * list Z",
         leaves={"self.instance.num_jobs": ("num_jobs I", "nat"), "self.instance.num_machines": ("num_machines I", "nat")},
         model="(action_nvec I, action_start)", unfold="action_nvec action_start",
         props=["C18"]),
]


class Tr:
    def __init__(self, leaves, expected=None):
        self.leaves = dict(leaves)
        self.locals = {}
        self.outputs = {}
        self.expected = dict(expected or {})
        self.seen_expected = set()

    def leaf(self, node):
        key = ast.unparse(node)
        if key in self.locals:
            return self.locals[key]
        if key in self.leaves:
            term, ty = self.leaves[key]
            if ty == "nat":
                return f"(Z.of_nat ({term}))", "Z"
            return f"({term})", ty
        raise Untranslatable(f"unknown name / attribute chain: {key}")

    def expr(self, n):
        if isinstance(n, ast.Constant) and isinstance(n.value, bool):
            return ("true" if n.value else "false"), "bool"
        if isinstance(n, ast.Constant) and isinstance(n.value, int):
            return f"({n.value})", "Z"
        if isinstance(n, (ast.Name, ast.Attribute, ast.Subscript)):
            return self.leaf(n)
        if isinstance(n, ast.Call):
            if isinstance(n.func, ast.Name) and n.func.id in ("max", "min") and len(n.args) >= 2 and not n.keywords:
                parts = [self.num(a) for a in n.args]
                f = "Z.max" if n.func.id == "max" else "Z.min"
                acc = parts[0]
                for p in parts[1:]:
                    acc = f"({f} {acc} {p})"
                return acc, "Z"
            return self.leaf(n)
        if isinstance(n, ast.BinOp) and isinstance(n.op, (ast.Add, ast.Sub, ast.Mult)):
            op = {ast.Add: "+", ast.Sub: "-", ast.Mult: "*"}[type(n.op)]
            return f"({self.num(n.left)} {op} {self.num(n.right)})", "Z"
        if isinstance(n, ast.UnaryOp) and isinstance(n.op, ast.USub):
            return f"(- {self.num(n.operand)})", "Z"
        if isinstance(n, ast.UnaryOp) and isinstance(n.op, ast.Not):
            return f"(negb {self.boolean(n.operand)})", "bool"
        if isinstance(n, ast.BoolOp):
            op = "&&" if isinstance(n.op, ast.And) else "||"
            return "(" + f" {op} ".join(self.boolean(v) for v in n.values) + ")", "bool"
        if isinstance(n, ast.Compare) and len(n.ops) == 1:
            a, b = self.num(n.left), self.num(n.comparators[0])
            o = n.ops[0]
            if isinstance(o, ast.Lt):
                return f"({a} <? {b})", "bool"
            if isinstance(o, ast.LtE):
                return f"({a} <=? {b})", "bool"
            if isinstance(o, ast.Gt):
                return f"({b} <? {a})", "bool"
            if isinstance(o, ast.GtE):
                return f"({b} <=? {a})", "bool"
            if isinstance(o, ast.Eq):
                return f"({a} =? {b})", "bool"
            if isinstance(o, ast.NotEq):
                return f"(negb ({a} =? {b}))", "bool"
        if isinstance(n, ast.IfExp):
            t, ty = self.expr(n.body)
            e, ty2 = self.expr(n.orelse)
            if ty != ty2:
                raise Untranslatable("branches of different types")
            return f"(if {self.boolean(n.test)} then {t} else {e})", ty
        raise Untranslatable("unsupported expression: " + ast.dump(n)[:80])

    def num(self, n):
        t, ty = self.expr(n)
        if ty != "Z":
            raise Untranslatable("integer expected: " + ast.unparse(n))
        return t

    def boolean(self, n):
        t, ty = self.expr(n)
        if ty != "bool":
            raise Untranslatable("boolean expected: " + ast.unparse(n))
        return t

    def body(self, stmts, outputs):
        result = None
        for s in stmts:
            if isinstance(s, ast.Expr) and isinstance(s.value, ast.Constant):
                continue   # docstring
            if isinstance(s, ast.Assign) and len(s.targets) == 1 and isinstance(s.targets[0], ast.Name) \
                    and s.targets[0].id in self.expected:
                # a local the kernel table gives a meaning to (a row, an element of it): the right-hand side must be
                # textually the expected expression, otherwise the kernel falls back
                if ast.unparse(s.value) != self.expected[s.targets[0].id]:
                    raise Untranslatable(f"{s.targets[0].id} is no longer assigned {self.expected[s.targets[0].id]}")
                self.seen_expected.add(s.targets[0].id)
                continue
            if isinstance(s, ast.If):
                cond = self.boolean(s.test)
                before = dict(self.locals)
                branches = []
                for blk in (s.body, s.orelse):
                    self.locals = dict(before)
                    for t in blk:
                        if isinstance(t, ast.Assign) and len(t.targets) == 1 and isinstance(t.targets[0], ast.Name):
                            name = t.targets[0].id
                            if name in self.expected:
                                if ast.unparse(t.value) != self.expected[name]:
                                    raise Untranslatable(f"{name} is no longer assigned {self.expected[name]}")
                                self.seen_expected.add(name)
                            else:
                                self.locals[name] = self.expr(t.value)
                        else:
                            raise Untranslatable("unsupported statement inside if: " + ast.unparse(t)[:80])
                    branches.append(self.locals)
                merged = dict(before)
                for name in set(branches[0]) | set(branches[1]):
                    a, b = branches[0].get(name), branches[1].get(name)
                    if a == b:
                        merged[name] = a
                        continue
                    if a is None or b is None or a[1] != b[1]:
                        raise Untranslatable(f"{name} is not assigned a value of one type on both paths")
                    merged[name] = (f"(if {cond} then {a[0]} else {b[0]})", a[1])
                self.locals = merged
                continue
            if isinstance(s, ast.Assign) and len(s.targets) == 1 and isinstance(s.targets[0], (ast.Name, ast.Attribute)):
                key = ast.unparse(s.targets[0])
                self.locals[key] = self.expr(s.value)
                if isinstance(s.targets[0], ast.Attribute):
                    self.outputs["store:" + key] = self.locals[key]
                continue
            if isinstance(s, ast.Expr) and isinstance(s.value, ast.Call) and isinstance(s.value.func, ast.Attribute) \
                    and s.value.func.attr == "append" and len(s.value.args) == 1:
                self.outputs["append:" + ast.unparse(s.value.func.value)] = self.expr(s.value.args[0])
                continue
            if isinstance(s, ast.Return) and s.value is not None:
                result = self.expr(s.value)
                break
            raise Untranslatable("unsupported statement: " + ast.unparse(s)[:80])
        if outputs:
            parts = []
            for o in outputs:
                if o not in self.outputs:
                    raise Untranslatable("expected effect not found: " + o)
                parts.append(self.outputs[o][0])
            extra = set(self.outputs) - set(outputs)
            if extra:
                raise Untranslatable("unexpected effect: " + ", ".join(sorted(extra)))
            return "(" + ", ".join(parts) + ")"
        if result is None:
            raise Untranslatable("no return value")
        return result[0]


def find_function(path, cls, fn):
    with open(path) as f:
        tree = ast.parse(f.read())
    if cls is None:
        for n in tree.body:
            if isinstance(n, ast.FunctionDef) and n.name == fn:
                return n
        raise Untranslatable(f"function {fn} not found")
    for n in ast.walk(tree):
        if isinstance(n, ast.ClassDef) and n.name == cls:
            for b in n.body:
                if isinstance(b, ast.FunctionDef) and b.name == fn:
                    return b
    raise Untranslatable(f"{cls}.{fn} not found")


def translate(k):
    fn = find_function(os.path.join(common.REPO, k["file"]), k["cls"], k["fn"])
    if "assign_target" in k:
        tr = Tr(k["leaves"])
        for st in ast.walk(fn):
            if isinstance(st, ast.Assign) and len(st.targets) == 1 and ast.unparse(st.targets[0]) == k["assign_target"]:
                call = st.value
                if not (isinstance(call, ast.Call) and ast.unparse(call.func).endswith("MultiDiscrete")
                        and len(call.args) == 1 and isinstance(call.args[0], ast.List)
                        and len(call.keywords) == 1 and call.keywords[0].arg == "start"
                        and isinstance(call.keywords[0].value, ast.List)):
                    raise Untranslatable("unexpected shape of the space expression: " + ast.unparse(call)[:100])
                nvec = "[" + "; ".join(tr.num(e) for e in call.args[0].elts) + "]"
                start = "[" + "; ".join(tr.num(e) for e in call.keywords[0].value.elts) + "]"
                return f"({nvec}, {start})"
        raise Untranslatable("assignment to " + k["assign_target"] + " not found")
    if "pick" in k:
        return translate_picked(fn, k)
    tr = Tr(k["leaves"], k.get("expected"))
    out = tr.body(fn.body, k.get("outputs"))
    missing = set(tr.expected) - tr.seen_expected
    if missing:
        raise Untranslatable("expected local(s) not assigned: " + ", ".join(sorted(missing)))
    return out


def _unique(nodes, what):
    if len(nodes) != 1:
        raise Untranslatable(f"{what}: {len(nodes)} matching statements (exactly one expected)")
    return nodes[0]


def translate_picked(fn, k):
    """Kernels that are ONE decision inside a loop: the steps pick, anywhere in the function body, the unique
    assignment to a local (`assign`), the unique store into a subscript (`store`) or the test of the unique `if`
    that guards a given statement (`guard_of`); the last step's expression is the kernel."""
    tr = Tr(k["leaves"])
    result = None
    for kind, what in k["pick"]:
        if kind == "assign":
            st = _unique([n for n in ast.walk(fn) if isinstance(n, ast.Assign) and len(n.targets) == 1
                          and isinstance(n.targets[0], ast.Name) and n.targets[0].id == what], "assignment to " + what)
            result = tr.expr(st.value)
            tr.locals[what] = result
        elif kind == "assign_in_for":
            st = _unique([n for f in ast.walk(fn) if isinstance(f, ast.For) for n in ast.walk(f)
                          if isinstance(n, ast.Assign) and len(n.targets) == 1
                          and isinstance(n.targets[0], ast.Name) and n.targets[0].id == what],
                         "assignment to " + what + " inside a loop")
            result = tr.expr(st.value)
        elif kind == "store":
            st = _unique([n for n in ast.walk(fn) if isinstance(n, ast.Assign) and len(n.targets) == 1
                          and ast.unparse(n.targets[0]) == what], "store into " + what)
            result = tr.expr(st.value)
        elif kind == "guard_of":
            st = _unique([n for n in ast.walk(fn) if isinstance(n, ast.If) and not n.orelse
                          and any((ast.unparse(b).startswith(what[:-1]) if what.endswith("*") else
                                   ast.unparse(b) == what) for b in n.body)], "if guarding `" + what + "`")
            if k.get("sole_body", True) and len(st.body) != 1:
                raise Untranslatable("the guarded block does more than `" + what + "`")
            result = tr.expr(st.test)
        else:
            raise Untranslatable("unknown pick kind " + kind)
    return result[0]


_F = "job_shop_lib/dispatching/_ready_operation_filters.py"
KERNELS += [
    dict(name="dominated_test", file=_F, cls=None, fn="filter_dominated_operations", params="(st e : Z)", args="st e",
         rtype="bool", pick=[("assign", "is_dominated"), ("guard_of", "non_dominated_operations.append(operation)")],
         sole_body=False,
         leaves={"start_time": ("st", "Z"), "min_machine_end_times[machine_id]": ("e", "Z")},
         quant="(I : instance) (d : dstate) (L : list (nat * nat)) (k : nat * nat) (m : nat)",
         call="match min_end_on I d L m with None => true | Some e => gen_k (start_time d (fst k) m) e end",
         model="not_dominated_on I d L k m", unfold="not_dominated_on", props=["C07", "C08", "C06"]),
    dict(name="zero_duration_shortcut", file=_F, cls=None, fn="filter_dominated_operations", params="(du : Z)",
         args="du", rtype="bool", pick=[("guard_of", "return [operation]")],
         leaves={"operation.duration": ("du", "Z")},
         quant="(I : instance) (d : dstate) (L r : list (nat * nat)) (k : nat * nat)",
         call="(if gen_k (kdur I k) then inr k else match dominated_loop I d L r with inr z => inr z | inl acc => "
              "if existsb (not_dominated_on I d L k) (kmachines I k) then inl (k :: acc) else inl acc end)",
         model="dominated_loop I d L (k :: r)", unfold="", cbn="dominated_loop", props=["C07", "C08"]),
    dict(name="non_idle_completed_test", file=_F, cls=None, fn="_get_non_idle_machines", params="(e t : Z)",
         args="e t", rtype="bool", pick=[("assign", "is_completed"), ("guard_of", "break")],
         leaves={"scheduled_operation.end_time": ("e", "Z"), "current_time": ("t", "Z")},
         quant="(I : instance) (t : Z) (x : sop) (r : list sop)",
         call="(if gen_k (s_end I x) t then [] else x :: take_while_running I t r)",
         model="take_while_running I t (x :: r)", unfold="", cbn="take_while_running", props=["C07", "C06", "C05"]),
    dict(name="immediate_operation_test", file=_F, cls=None, fn="filter_non_immediate_operations",
         params="(s t : Z)", args="s t", rtype="bool",
         pick=[("guard_of", "immediate_operations.append(operation)")],
         leaves={"start_time": ("s", "Z"), "min_start_time": ("t", "Z")},
         quant="(I : instance) (d : dstate) (L : list (nat * nat))",
         call="filter (fun k => match kop I k with Some o => match earliest_start_time d (fst k) o with "
              "Some s => gen_k s (min_start_time I d L) | None => false end | None => false end) L",
         model="filter_non_immediate_ops I d L", unfold="", props=["C07", "C06"]),
    dict(name="immediate_machine_test", file=_F, cls=None, fn="_get_immediate_machines", params="(s t : Z)",
         args="s t", rtype="bool", pick=[("guard_of", "working_machines[machine_id] = True")],
         leaves={"self.start_time(op, machine_id)": ("s", "Z"), "current_time": ("t", "Z")},
         quant="(I : instance) (d : dstate) (L : list (nat * nat)) (m : nat)",
         call="existsb (fun k => mem_nat m (kmachines I k) && gen_k (start_time d (fst k) m) (min_start_time I d L)) L",
         model="immediate_machine I d L m", unfold="", props=["C07", "C06"]),
    dict(name="min_machine_end_update", file=_F, cls=None, fn="_get_min_machine_end_times",
         params="(cur st du : Z)", args="cur st du", rtype="Z",
         pick=[("store", "end_times_per_machine[machine_id]")],
         leaves={"end_times_per_machine[machine_id]": ("cur", "Z"), "start_time": ("st", "Z"),
                 "op.duration": ("du", "Z")},
         quant="(st du : Z) (l : list Z)",
         call="Some (match minZ_opt l with None => st + du | Some cur => gen_k cur st du end)",
         model="minZ_opt ((st + du) :: l)", unfold="", cbn="minZ_opt", props=["C07", "C08"]),
]


KERNELS += [
    dict(name="last_reward", file="job_shop_lib/reinforcement_learning/_reward_observers.py", cls="RewardObserver",
         fn="last_reward", params="(has : bool) (lastr : Z)", args="rw", rtype="Z",
         leaves={"self.rewards": ("has", "bool"), "self.rewards[-1]": ("lastr", "Z")},
         quant="(rw : list Z)", imports="Feasible",
         call="gen_k (match last_opt rw with Some _ => true | None => false end) "
              "(match last_opt rw with Some r => r | None => 0 end)",
         model="match last_opt rw with Some r => r | None => 0 end", unfold="", props=["C13"]),
    dict(name="schedule_is_complete", file="job_shop_lib/_schedule.py", cls="Schedule", fn="is_complete",
         params="(I : instance) (S : schedule)", args="I S", rtype="bool",
         leaves={"self.num_scheduled_operations": ("num_scheduled S", "nat"),
                 "self.instance.num_operations": ("num_ops I", "nat")},
         model="is_complete I S", unfold="is_complete", props=["C01", "C18", "C04"]),
    dict(name="makespan_step", file="job_shop_lib/_schedule.py", cls="Schedule", fn="makespan",
         params="(acc e : Z)", args="acc e", rtype="Z", pick=[("assign_in_for", "max_end_time")],
         leaves={"max_end_time": ("acc", "Z"), "machine_schedule[-1].end_time": ("e", "Z")},
         quant="(I : instance) (acc : Z) (row : list sop)", imports="Feasible",
         call="match last_opt row with Some y => gen_k acc (s_end I y) | None => acc end",
         model="fold_left (fun acc row => match last_opt row with Some y => Z.max acc (s_end I y) | None => acc end) "
               "[row] acc", unfold="", cbn="fold_left", props=["C02", "C13", "C06"]),
    dict(name="next_operation_guard", file="job_shop_lib/dispatching/_dispatcher.py", cls="Dispatcher",
         fn="next_operation", params="(I : instance) (d : dstate) (j : nat)", args="I d j", rtype="bool",
         pick=[("guard_of", "raise ValidationError*")],
         leaves={"len(self.instance.jobs[job_id])": ("length (get_job I j)", "nat"),
                 "self._job_next_operation_index[job_id]": ("nthN (jnext d) j", "nat")},
         model="(length (get_job I j) <=? nthN (jnext d) j)%nat", unfold="", props=["C09", "C18", "C05"]),
]


def check_kernels(pid):
    """-> list of dicts {kernel, status, detail}; status in tied | fallback | broken"""
    out = []
    todo = []
    for k in KERNELS:
        if pid not in k["props"]:
            continue
        try:
            todo.append((k, translate(k)))
        except Untranslatable as e:
            out.append({"kernel": k["name"], "status": "fallback", "detail": str(e)})
        except (OSError, SyntaxError) as e:
            out.append({"kernel": k["name"], "status": "fallback", "detail": "source not readable: " + str(e)})
    for k in PROGRAMS:
        if pid not in k["props"]:
            continue
        try:
            todo.append((k, translate_program(k)))
        except OrderBroken as e:
            out.append({"kernel": k["name"], "status": "broken", "detail": str(e)})
        except Untranslatable as e:
            out.append({"kernel": k["name"], "status": "fallback", "detail": str(e)})
        except (OSError, SyntaxError) as e:
            out.append({"kernel": k["name"], "status": "fallback", "detail": "source not readable: " + str(e)})
    d = os.path.join(common.VERIF, ".scratch")
    os.makedirs(d, exist_ok=True)
    def _one(kb):
        k, body = kb
        res = None
        path = os.path.join(d, f"Gen_{pid}_{k['name']}_{os.getpid()}.v")
        if k["name"].startswith("prog_"):
            text = program_text(k, body)
        else:
            unfold = ("gen_k " + k.get("unfold", "")).strip()
            text = HEADER
            if k.get("imports"):
                text += f"From JSL Require Import {k['imports']}.\n"
            text += f"Definition gen_k {k['params']} : {k['rtype']} := {body}.\n"
            text += TACTIC % {"unfold": unfold, "cbn": ("cbn [%s];" % k["cbn"]) if k.get("cbn") else ""}
            if k.get("call"):
                text += f"Lemma gen_k_ok : forall {k['quant']}, {k['call']} = {k['model']}.\nProof. kernel. Qed.\n"
            else:
                text += f"Lemma gen_k_ok : forall {k['args']}, gen_k {k['args']} = {k['model']}.\nProof. kernel. Qed.\n"
        with open(path, "w") as f:
            f.write(text)
        try:
            p = subprocess.run(["coqc", "-Q", "model", "JSL", "-Q", "spec", "JSL", "-Q", "proofs", "JSL",
                                "-o", path[:-2] + ".vo", path], cwd=COQ, capture_output=True, text=True, timeout=300)
            if p.returncode == 0:
                res = ({"kernel": k["name"], "status": "tied", "detail": body})
            else:
                res = ({"kernel": k["name"], "status": "broken",
                            "detail": f"translated source: {body} ; model: {k['model']} ; coqc: " +
                                      (p.stdout + p.stderr)[-600:]})
        finally:
            for ext in (".v", ".vo", ".vok", ".vos", ".glob"):
                try:
                    os.remove(path[:-2] + ext)
                except OSError:
                    pass
            try:
                os.remove(os.path.join(d, "." + os.path.basename(path)[:-2] + ".aux"))
            except OSError:
                pass
        return res

    from concurrent.futures import ThreadPoolExecutor
    with ThreadPoolExecutor(max_workers=8) as ex:
        out.extend(ex.map(_one, todo))
    return out


# ---------------------------------------------------------------------------------------------------------------
# Program kernels: whole METHOD BODIES of the dispatcher's state machine, statement by statement, in source order.
#
# Each accepted statement form is turned into one step of the model's state-and-exception monad (World.v); the
# generated program must then be provably equal - for every world - to the model's own program (`update_tracking`,
# `reset`, `dispatch`). What this ties for ALL inputs is what sampling can only probe: the ORDER of checks, writes,
# cache invalidation and notification, that nothing was dropped or duplicated, and which vector each store goes to.
# A statement outside the accepted forms makes the program fall back (recorded, never an alarm); a program that
# translates but is no longer equal to the model's is a broken obligation (-> violation search).

PROG_HEADER = """From JSL Require Import Base Instance Dstate Filters World.
Set Implicit Arguments.
Section Gen.
Variable O : Type.
Variable o_update : instance -> list fname -> dstate -> sop -> O -> O.
Variable o_reset : instance -> list fname -> dstate -> O -> O.
"""
PROG_TACTIC = """Ltac prog :=
  intros; try reflexivity;
  match goal with w : world _ |- _ => destruct w as [[mf jn jf sc] c f os ss] end;
  cbv [%(unfold)s bind ret raise get put modify of_opt set_core set_cache set_objs set_subs];
  cbn [core wcache filt objs subs mfree jnext jfree sched fst snd];
  repeat (match goal with
          | |- context [if negb ?b then _ else _] => destruct b eqn:?; cbn [negb]
          | |- context [match ?o with Some _ => _ | None => _ end] => destruct o eqn:?
          | |- context [if ?b then _ else _] => destruct b eqn:?
          end; cbn [core wcache filt objs subs mfree jnext jfree sched fst snd]);
  try reflexivity; try congruence;
  (* a program that ends in a call of another modelled method: `bind m (fun _ => ret tt)` against `m` *)
  repeat (match goal with
          | |- context [match ?m with pair _ _ => _ end] => destruct m as [? [[]|?]] eqn:?
          end);
  try reflexivity; try congruence.
"""

FIELDS = {"self._machine_next_available_time": ("mfree", "Z"),
          "self._job_next_operation_index": ("jnext", "nat"),
          "self._job_next_available_time": ("jfree", "Z")}
EXN = {"ValidationError": "EValidation", "UninitializedAttributeError": "EUninit", "IndexError": "EIndex"}
NOTIFY_ITER = ("list(self.subscribers)", "tuple(self.subscribers)", "self.subscribers[:]", "self.subscribers.copy()")


def _mkd(field, new):
    parts = {"mfree": "(mfree d)", "jnext": "(jnext d)", "jfree": "(jfree d)", "sched": "(sched d)"}
    parts[field] = new
    return "set_core (fun d => mkd %(mfree)s %(jnext)s %(jfree)s %(sched)s)" % parts


class ProgTr(Tr):
    """statement list -> nested `bind`s; python locals become Coq variables `v_<name>`"""

    def __init__(self, k):
        super().__init__(k["leaves"])
        self.k = k
        self.calls = k.get("calls", {})          # exact statement text -> (step text with a hole @K@ for the rest)

    def leaf(self, node):
        key = ast.unparse(node)
        if key in self.locals:
            term, ty = self.locals[key]
            return (f"(Z.of_nat {term})", "Z") if ty == "nat" else (term, ty)
        return super().leaf(node)

    def index(self, node):
        """a list index as a nat term"""
        key = ast.unparse(node)
        if key in self.locals and self.locals[key][1] == "nat":
            return self.locals[key][0]
        if key in self.leaves and self.leaves[key][1] == "nat":
            return f"({self.leaves[key][0]})"
        return f"(Z.to_nat {self.num(node)})"

    def bind_local(self, name, node):
        key = ast.unparse(node)
        if key in self.leaves and self.leaves[key][1] == "nat":
            term, ty = f"({self.leaves[key][0]})", "nat"
        elif key in self.locals:
            term, ty = self.locals[key]
        else:
            term, ty = self.expr(node)
        self.locals[name] = ("v_" + name, ty)
        return f"let v_{name} := {term} in "

    def stmt(self, s):
        """-> a string with one `@K@` hole for the continuation, or a final step (no hole) for the last statement"""
        src = ast.unparse(s)
        if src in self.calls:
            step, binds = self.calls[src]
            for name, ty in binds.items():
                self.locals[name] = ("v_" + name, ty)
            return step
        if isinstance(s, ast.Assign) and len(s.targets) == 1:
            t = s.targets[0]
            if isinstance(t, ast.Name):
                return self.bind_local(t.id, s.value) + "@K@"
            if isinstance(t, ast.Subscript) and ast.unparse(t.value) in FIELDS:
                fld, ty = FIELDS[ast.unparse(t.value)]
                val = self.num(s.value) if ty == "Z" else f"(Z.to_nat {self.num(s.value)})"
                return "bind (" + _mkd(fld, f"(upd ({fld} d) {self.index(t.slice)} {val})") + ") (fun _ => @K@)"
            if isinstance(t, ast.Attribute) and ast.unparse(t) in FIELDS:
                fld, ty = FIELDS[ast.unparse(t)]
                v = s.value
                if isinstance(v, ast.BinOp) and isinstance(v.op, ast.Mult) and isinstance(v.left, ast.List) \
                        and len(v.left.elts) == 1 and isinstance(v.left.elts[0], ast.Constant) \
                        and type(v.left.elts[0].value) is int:
                    c = v.left.elts[0].value
                    n = self.index(v.right)
                    lit = f"({c})" if ty == "Z" else f"{c}%nat"
                    if ty == "nat" and c < 0:
                        raise Untranslatable("negative counter")
                    return "bind (" + _mkd(fld, f"(repeat {lit} {n})") + ") (fun _ => @K@)"
            if isinstance(t, ast.Attribute) and ast.unparse(t) == "self._cache" and isinstance(v := s.value, ast.Dict) \
                    and not v.keys:
                return "bind (set_cache (fun _ => empty_cache)) (fun _ => @K@)"
        if isinstance(s, ast.AugAssign) and isinstance(s.op, ast.Add) and isinstance(s.target, ast.Subscript) \
                and ast.unparse(s.target.value) in FIELDS and isinstance(s.value, ast.Constant) \
                and type(s.value.value) is int:
            fld, ty = FIELDS[ast.unparse(s.target.value)]
            i = self.index(s.target.slice)
            c = s.value.value
            if ty == "Z":
                new = f"(nthZ ({fld} d) {i} + ({c}))"
            else:
                if c < 0:
                    raise Untranslatable("decrement of a counter")
                new = f"({c} + nthN ({fld} d) {i})%nat"
            return "bind (" + _mkd(fld, f"(upd ({fld} d) {i} {new})") + ") (fun _ => @K@)"
        if isinstance(s, ast.For) and not s.orelse and isinstance(s.target, ast.Name) and len(s.body) == 1 \
                and ast.unparse(s.iter) in NOTIFY_ITER:
            b = s.body[0]
            var = s.target.id
            if isinstance(b, ast.Expr) and isinstance(b.value, ast.Call) and isinstance(b.value.func, ast.Attribute) \
                    and ast.unparse(b.value.func.value) == var and not b.value.keywords:
                meth = b.value.func.attr
                args = [ast.unparse(a) for a in b.value.args]
                if meth == "update" and args == [self.k.get("sop_arg", "scheduled_operation")]:
                    return ("bind get (fun w => bind (set_objs (notify_all (o_update I (filt w) (core w) x) (subs w))) "
                            "(fun _ => @K@))")
                if meth == "reset" and args == []:
                    return ("bind get (fun w => bind (set_objs (notify_all (o_reset I (filt w) (core w)) (subs w))) "
                            "(fun _ => @K@))")
        if isinstance(s, ast.If) and not s.orelse and len(s.body) == 1 and isinstance(s.body[0], ast.Raise) \
                and isinstance(s.body[0].exc, ast.Call) and ast.unparse(s.body[0].exc.func) in EXN:
            e = EXN[ast.unparse(s.body[0].exc.func)]
            return f"bind (if {self.boolean(s.test)} then raise {e} else ret tt) (fun _ => @K@)"
        if isinstance(s, ast.If) and not s.orelse and len(s.body) == 1 and isinstance(s.body[0], ast.Return) \
                and s.body[0].value is None:
            return f"(if {self.boolean(s.test)} then ret tt else @K@)"
        raise Untranslatable("unsupported statement: " + src[:90])

    def program(self, stmts):
        steps = []
        for s in stmts:
            if isinstance(s, ast.Expr) and isinstance(s.value, ast.Constant):
                continue
            steps.append(self.stmt(s))
        # Side condition of the model's abstraction: observers are modelled as reading the dispatcher through
        # from-scratch queries (o_update / o_reset receive the dispatcher state, not the cache), which is what the
        # code does only if the cache is emptied BEFORE the notification loop. In the monadic model the two steps
        # commute, so Coq cannot see this reordering; it is checked here on the statement sequence.
        inval = [i for i, st in enumerate(steps) if "set_cache (fun _ => empty_cache)" in st]
        notif = [i for i, st in enumerate(steps) if "notify_all" in st]
        if notif and inval and max(inval) > min(notif):
            raise OrderBroken("the cache is invalidated AFTER the subscribers are notified: observers that query the "
                              "dispatcher during update()/reset() would read answers cached before the state changed")
        out = "ret tt"
        for st in reversed(steps):
            out = st.replace("@K@", out) if "@K@" in st else st
        return out


W = "(core w)"
PROGRAMS = [
    dict(name="prog_update_tracking", file="job_shop_lib/dispatching/_dispatcher.py", cls="Dispatcher",
         fn="_update_tracking_attributes", params="(I : instance) (x : sop)", args="I x",
         leaves={"scheduled_operation.job_id": ("s_job x", "nat"), "scheduled_operation.machine_id": ("s_mach x", "nat"),
                 "scheduled_operation.end_time": ("s_end I x", "Z")},
         model="update_tracking o_update I x", unfold="update_tracking",
         props=["C01", "C02", "C05", "C09", "C10"]),
    dict(name="prog_dispatcher_reset", file="job_shop_lib/dispatching/_dispatcher.py", cls="Dispatcher",
         fn="reset", params="(I : instance)", args="I",
         leaves={"self.instance.num_machines": ("num_machines I", "nat"), "self.instance.num_jobs": ("num_jobs I", "nat")},
         calls={"self.schedule.reset()":
                ("bind (set_core (fun d => mkd (mfree d) (jnext d) (jfree d) (repeat [] (num_machines I)))) "
                 "(fun _ => @K@)", {})},
         model="reset o_reset I", unfold="reset",
         props=["C02", "C05", "C10", "C12"]),
    dict(name="prog_dispatch", file="job_shop_lib/dispatching/_dispatcher.py", cls="Dispatcher",
         fn="dispatch", params="(I : instance) (r : request)", args="I r",
         prologue="bind (of_opt (get_op I (r_job r) (r_pos r)) EOther) (fun o => bind get (fun w => @K@))",
         leaves={"self.is_operation_ready(operation)": (f"(nthN (jnext {W}) (r_job r) =? r_pos r)%nat", "bool")},
         calls={"if machine_id is None:\n    machine_id = operation.machine_id":
                ("bind (resolve_machine o (r_mach r)) (fun v_machine_id => @K@)", {"machine_id": "Z"}),
                "start_time = self.start_time(operation, machine_id)":
                (f"bind (of_opt (py_index (length (mfree {W})) v_machine_id) EIndex) (fun mi => "
                 f"let v_start_time := start_time {W} (r_job r) mi in @K@)", {"start_time": "Z"}),
                "scheduled_operation = ScheduledOperation(operation, start_time, machine_id)":
                ("bind (if existsb (fun k => Z.of_nat k =? v_machine_id) (machines o) then ret tt else raise EValidation) "
                 "(fun _ => let x := mksop (r_job r) (r_pos r) v_start_time (Z.to_nat v_machine_id) in @K@)", {}),
                "self.schedule.add(scheduled_operation)": ("bind (schedule_add I x) (fun _ => @K@)", {}),
                "self._update_tracking_attributes(scheduled_operation)":
                ("bind (update_tracking o_update I x) (fun _ => @K@)", {})},
         model="dispatch o_update I r", unfold="dispatch start_time",
         props=["C01", "C02", "C09", "C10"]),
    dict(name="prog_schedule_add", file="job_shop_lib/_schedule.py", cls="Schedule", fn="add",
         params="(I : instance) (x : sop)", args="I x", leaves={},
         pre=[dict(name="gen_check", file="job_shop_lib/_schedule.py", cls="Schedule",
                   fn="_check_start_time_of_new_operation", params="(I : instance) (x : sop)",
                   prologue="bind get (fun w => bind (of_opt (nth_error (sched (core w)) (s_mach x)) EIndex) "
                            "(fun row => @K@))",
                   leaves={"self._is_valid_start_time(new_operation, last_operation)":
                           ("(s_end I y <=? s_start x)", "bool")},
                   calls={"is_first_operation = not self.schedule[new_operation.machine_id]":
                          ("let v_is_first_operation := match last_opt row with None => true | Some _ => false end "
                           "in @K@", {"is_first_operation": "bool"}),
                          "last_operation = self.schedule[new_operation.machine_id][-1]":
                          ("bind (of_opt (last_opt row) EIndex) (fun y => @K@)", {})})],
         calls={"self._check_start_time_of_new_operation(scheduled_operation)":
                ("bind (gen_check I x) (fun _ => @K@)", {}),
                "self.schedule[scheduled_operation.machine_id].append(scheduled_operation)":
                ("bind get (fun w => bind (of_opt (nth_error (sched (core w)) (s_mach x)) EIndex) (fun row => "
                 "bind (set_core (fun d => mkd (mfree d) (jnext d) (jfree d) (upd (sched d) (s_mach x) (row ++ [x])))) "
                 "(fun _ => @K@)))", {})},
         model="schedule_add I x", unfold="schedule_add gen_check",
         props=["C01", "C09"]),
    # the dispatcher part of SingleJobShopGraphEnv.step: look the operation up, resolve -1, dispatch - then only reads
    dict(name="prog_env_step", file="job_shop_lib/reinforcement_learning/_single_job_shop_graph_env.py",
         cls="SingleJobShopGraphEnv", fn="step", params="(I : instance) (j : nat) (m : Z)", args="I j m", leaves={},
         calls={"job_id, machine_id = action": ("let v_machine_id := m in @K@", {"machine_id": "Z"}),
                "operation = self.dispatcher.next_operation(job_id)":
                (f"bind get (fun w => bind (if (length (get_job I j) <=? nthN (jnext {W}) j)%nat then raise EValidation "
                 f"else ret tt) (fun _ => let p := nthN (jnext {W}) j in bind (of_opt (get_op I j p) EOther) "
                 "(fun o => @K@)))", {}),
                "if machine_id == -1:\n    machine_id = operation.machine_id":
                ("bind (if v_machine_id =? -1 then resolve_machine o None else ret v_machine_id) "
                 "(fun v_machine_id => @K@)", {"machine_id": "Z"}),
                "self.dispatcher.dispatch(operation, machine_id)":
                ("bind (dispatch o_update I (mkreq j p (Some v_machine_id))) (fun _ => @K@)", {}),
                # what follows the dispatch only READS the dispatcher (no step of the model's world)
                "obs = self.get_observation()": ("@K@", {}),
                "reward = self.reward_function.last_reward": ("@K@", {}),
                "done = self.dispatcher.schedule.is_complete()": ("@K@", {}),
                "truncated = False": ("@K@", {}),
                "info: dict[str, Any] = {'feature_names': self.composite_observer.column_names, "
                "'available_operations': self.dispatcher.available_operations()}": ("@K@", {}),
                "return (obs, reward, done, truncated, info)": ("@K@", {})},
         model="env_step o_update I j m", unfold="env_step",
         props=["C09", "C13", "C18"]),
    dict(name="prog_schedule_reset", file="job_shop_lib/_schedule.py", cls="Schedule", fn="reset",
         params="(I : instance)", args="I", leaves={},
         calls={"self.schedule = [[] for _ in range(self.instance.num_machines)]":
                ("bind (set_core (fun d => mkd (mfree d) (jnext d) (jfree d) (repeat [] (num_machines I)))) "
                 "(fun _ => @K@)", {})},
         model="set_core (fun d => mkd (mfree d) (jnext d) (jfree d) (repeat [] (num_machines I)))", unfold="",
         props=["C12"]),
]


def translate_program(k):
    fn = find_function(os.path.join(common.REPO, k["file"]), k["cls"], k["fn"])
    tr = ProgTr(k)
    body = tr.program(fn.body)
    if k.get("prologue"):
        body = k["prologue"].replace("@K@", body)
    pre = ""
    for sub in k.get("pre", []):            # helper methods the program calls: translated first, same rules
        fn2 = find_function(os.path.join(common.REPO, sub["file"]), sub["cls"], sub["fn"])
        b2 = ProgTr(sub).program(fn2.body)
        if sub.get("prologue"):
            b2 = sub["prologue"].replace("@K@", b2)
        pre += f"Definition {sub['name']} {sub['params']} : M O unit := {b2}.\n"
    return pre + "@@" + body if pre else body


def program_text(k, body):
    text = PROG_HEADER
    if "@@" in body:
        pre, body = body.split("@@", 1)
        text += pre
    text += f"Definition gen_p {k['params']} : M O unit := {body}.\n"
    text += PROG_TACTIC % {"unfold": ("gen_p " + k["unfold"]).strip()}
    text += f"Lemma gen_p_ok : forall {k['args']} (w : world O), gen_p {k['args']} w = ({k['model']}) w.\n"
    text += "Proof. prog. Qed.\nEnd Gen.\n"
    return text
