"""C15 — equality means same content.

A case is a short list of object DESCRIPTIONS (see coq/model/CmdC15.v); every
description is built into its own, independently constructed Python object.
Observed: the full tables of ``a == b`` and ``a != b`` (every ordered pair,
the diagonal included), ``hash`` agreement between operations, and a snapshot
of each object's content read back through its public attributes.

tie    : implementation's tables / snapshots  ==  the extracted model's
oracle : the property itself on the implementation's own answers — the table
         is reflexive / symmetric / transitive (extracted ``reflexiveb`` ...),
         ``==`` agrees with content equality of the snapshots (extracted
         ``cont_eqb``), ``!=`` is its negation, equal operations hash equally.
"""
from __future__ import annotations

import copy

from . import common
from .framework import Check, Failure

OP, SOP, SCHED, INST, FOREIGN, OPOF, REPACK = 0, 1, 2, 3, 4, 5, 6
KIND_NAME = {OP: "op", OPOF: "op", REPACK: "op", SOP: "sop", SCHED: "sched", INST: "inst", FOREIGN: "foreign"}


# --------------------------------------------------------------------------
# building the real objects
# --------------------------------------------------------------------------

def _name(codes):
    return "".join(chr(c) for c in codes)


def _meta(tok):
    return {} if tok == 0 else {"k": tok}


def build_inst(desc):
    from job_shop_lib import JobShopInstance, Operation

    _, jobs, name, meta, set_attrs, path = desc
    if path == 1:
        flexible = any(len(o[0]) > 1 for job in jobs for o in job)
        durs = [[o[1] for o in job] for job in jobs]
        machs = [[list(o[0]) if flexible else o[0][0] for o in job] for job in jobs]
        return JobShopInstance.from_matrices(durs, machs, name=_name(name),
                                             metadata=(None if meta == 0 else _meta(meta)))
    built = []
    for job in jobs:
        row = []
        for ms, d, j, p, i in job:
            op = Operation(list(ms), d)
            op.job_id, op.position_in_job, op.operation_id = j, p, i
            row.append(op)
        built.append(row)
    return JobShopInstance(built, name=_name(name), set_operation_attributes=bool(set_attrs),
                           **_meta(meta))


def build_op(desc):
    from job_shop_lib import Operation

    if desc[0] == OPOF:
        _, idesc, j, p = desc
        return build_inst(idesc).jobs[j][p]
    if desc[0] == REPACK:
        # an operation with a past: member of one instance (hashed there, the way the dispatcher's and the
        # solvers' sets and dicts do), then the SAME Operation objects re-packed into a second instance, which
        # re-assigns job_id / position_in_job / operation_id
        from job_shop_lib import JobShopInstance

        _, idesc, keep, j, p = desc
        first = build_inst(idesc)
        seen = {op for job in first.jobs for op in job}
        lookup = {op: 1 for op in seen}
        second = JobShopInstance([first.jobs[k] for k in keep], name="repacked")
        del lookup
        return second.jobs[j][p]
    _, ms, d, j, p, i, path = desc
    cls = Operation
    if (j + p + i) % 3 == 0:
        # a user subclass declaring slots of its own (the documented way of attaching due dates, priorities ...):
        # it is an Operation all the same, compared by the same five fields
        cls = _tagged_operation_class()
    op = cls(ms[0] if (path == 1 and len(ms) == 1) else list(ms), d)
    op.job_id, op.position_in_job, op.operation_id = j, p, i
    return op


_TAGGED = []


def _tagged_operation_class():
    if not _TAGGED:
        from job_shop_lib import Operation

        class TaggedOperation(Operation):
            __slots__ = ("due_date",)

            def __init__(self, machines, duration):
                super().__init__(machines, duration)
                self.due_date = 7

        _TAGGED.append(TaggedOperation)
    return _TAGGED[0]


def build_foreign(t, z):
    return [z, None, str(z), (z,), [z]][t]


def build(desc):
    from job_shop_lib import Schedule, ScheduledOperation

    tag = desc[0]
    if tag in (OP, OPOF, REPACK):
        return build_op(desc)
    if tag == SOP:
        return ScheduledOperation(build_op(desc[1]), desc[2], desc[3])
    if tag == SCHED:
        _, idesc, rows, meta, path = desc
        inst = build_inst(idesc)
        if path == 1:
            # built incrementally AND compared / hashed-by-content while it grows (what an episode loop does):
            # an answer computed on an earlier state must not survive Schedule.add
            s = Schedule(inst, **_meta(meta))
            _ = s == Schedule(inst)
            k = 0
            for row in rows:
                for j, p, st, m in row:
                    s.add(ScheduledOperation(inst.jobs[j][p], st, m))
                    k += 1
                    if k % 2 == 1:
                        _ = s == s
                        _ = s != Schedule(inst)
            return s
        return Schedule(inst, [[ScheduledOperation(inst.jobs[j][p], st, m) for j, p, st, m in row]
                               for row in rows], **_meta(meta))
    if tag == INST:
        return build_inst(desc)
    return build_foreign(desc[1], desc[2])


def snap_op(op):
    return [[int(m) for m in op.machines], int(op.duration), int(op.job_id),
            int(op.position_in_job), int(op.operation_id)]


def snap_sop(s):
    return [snap_op(s.operation), int(s.start_time), int(s.machine_id)]


def snapshot(desc, obj):
    tag = desc[0]
    if tag in (OP, OPOF, REPACK):
        return [0, snap_op(obj)]
    if tag == SOP:
        return [1, snap_sop(obj)]
    if tag == SCHED:
        return [2, [[snap_sop(s) for s in row] for row in obj.schedule]]
    if tag == INST:
        return [3, [[snap_op(o) for o in job] for job in obj.jobs]]
    return [4, desc[1], desc[2]]


def model_desc(desc):
    """The description the model is given. A re-packed operation is, for the model, the operation at the same
    place of an instance built from the kept jobs alone: JobShopInstance.__init__ re-runs
    set_operation_attributes, a function of the positions only (Equality.set_attrs)."""
    if desc[0] == REPACK:
        _, idesc, keep, j, p = desc
        kept = [idesc[1][k] for k in keep]
        return [OPOF, [INST, [[[list(o[0]), o[1], -1, -1, -1] for o in job] for job in kept],
                       list(idesc[2]), idesc[3], 1, 0], j, p]
    if desc[0] == SOP:
        return [SOP, model_desc(desc[1])] + list(desc[2:])
    return desc


def _cmp(f):
    try:
        r = f()
    except Exception as e:  # pylint: disable=broad-except
        return 2 + common.exn_code(e)
    if r is True:
        return 1
    if r is False:
        return 0
    return 2


# --------------------------------------------------------------------------
# descriptions and their mutations (generator side; nothing is compared to it
# except through the self-check 'generator-label')
# --------------------------------------------------------------------------

def inst_desc(spec, name=(97,), meta=0, set_attrs=1, path=0, attrs=None):
    jobs = []
    for j, job in enumerate(spec):
        row = []
        for p, (ms, d) in enumerate(job):
            a = attrs[j][p] if attrs else [-1, -1, -1]
            row.append([list(ms), d] + list(a))
        jobs.append(row)
    return [INST, jobs, list(name), meta, set_attrs, path]


def spec_of_desc(idesc):
    return [[[list(o[0]), o[1]] for o in job] for job in idesc[1]]


def positions(spec):
    return [(j, p) for j, job in enumerate(spec) for p in range(len(job))]


def set_attrs_of(spec):
    out, k = [], 0
    for j, job in enumerate(spec):
        row = []
        for p in range(len(job)):
            row.append([j, p, k])
            k += 1
        out.append(row)
    return out


def fresh_machine(spec):
    return max(1, common.num_machines_of(spec))


def mutate_spec(rng, spec):
    """-> (label, new spec) with DIFFERENT instance content, or None."""
    spec = copy.deepcopy(spec)
    pos = positions(spec)
    choices = ["dur", "mach-add", "mach-replace", "add-op", "add-empty-job", "add-job"]
    if any(len(spec[j][p][0]) > 1 for j, p in pos):
        choices += ["mach-order", "mach-drop"]
    if len(spec) > 1 and pos:
        choices += ["move-op", "move-op"]
    if len(spec) > 1 and any(spec[a] != spec[b] for a in range(len(spec)) for b in range(a)):
        choices.append("swap-jobs")
    if any(len(job) > 1 and any(job[a] != job[b] for a in range(len(job)) for b in range(a)) for job in spec):
        choices.append("swap-ops")
    if len(pos) > 1:
        choices.append("drop-op")
    if len(spec) > 1:
        choices.append("drop-job")
    kind = rng.choice(choices)
    if kind == "dur":
        j, p = rng.choice(pos)
        spec[j][p][1] += rng.choice([1, 2, 10]) if spec[j][p][1] == 0 or rng.random() < 0.6 else -1
    elif kind == "mach-add":
        j, p = rng.choice(pos)
        ms = spec[j][p][0]
        new = rng.choice([m for m in range(fresh_machine(spec) + 1) if m not in ms])
        ms.insert(rng.randint(0, len(ms)), new)
    elif kind == "mach-replace":
        j, p = rng.choice(pos)
        ms = spec[j][p][0]
        new = rng.choice([m for m in range(fresh_machine(spec) + 1) if m not in ms])
        ms[rng.randrange(len(ms))] = new
    elif kind == "mach-order":
        j, p = rng.choice([(j, p) for j, p in pos if len(spec[j][p][0]) > 1])
        ms = spec[j][p][0]
        spec[j][p][0] = ms[1:] + ms[:1]
    elif kind == "mach-drop":
        j, p = rng.choice([(j, p) for j, p in pos if len(spec[j][p][0]) > 1])
        spec[j][p][0].pop(rng.randrange(len(spec[j][p][0])))
    elif kind == "move-op":
        j = rng.choice([j for j, job in enumerate(spec) if job])
        k = rng.choice([k for k in range(len(spec)) if k != j])
        o = spec[j].pop() if rng.random() < 0.5 else spec[j].pop(0)
        if rng.random() < 0.5:
            spec[k].append(o)
        else:
            spec[k].insert(0, o)
    elif kind == "swap-jobs":
        a, b = rng.choice([(a, b) for a in range(len(spec)) for b in range(a) if spec[a] != spec[b]])
        spec[a], spec[b] = spec[b], spec[a]
    elif kind == "swap-ops":
        j, a, b = rng.choice([(j, a, b) for j, job in enumerate(spec) for a in range(len(job))
                              for b in range(a) if job[a] != job[b]])
        spec[j][a], spec[j][b] = spec[j][b], spec[j][a]
    elif kind == "drop-op":
        j, p = rng.choice(pos)
        spec[j].pop(p)
    elif kind == "drop-job":
        spec.pop(rng.randrange(len(spec)))
    elif kind == "add-op":
        j = rng.randrange(len(spec))
        spec[j].insert(rng.randint(0, len(spec[j])), [[rng.randrange(fresh_machine(spec))], rng.randint(0, 9)])
    elif kind == "add-empty-job":
        spec.insert(rng.randint(0, len(spec)), [])
    elif kind == "add-job":
        spec.append([[[rng.randrange(fresh_machine(spec))], rng.randint(0, 9)]])
    return kind, spec


def vary_inst(rng, idesc):
    """A content-PRESERVING variation of an instance description."""
    d = copy.deepcopy(idesc)
    kind = rng.choice(["copy", "name", "meta", "path", "explicit-attrs"])
    if kind == "name":
        d[2] = [rng.randint(97, 122) for _ in range(rng.randint(0, 4))]
    elif kind == "meta":
        d[3] = rng.randint(1, 9) if d[3] == 0 else 0
    elif kind == "path" and d[4] == 1:
        d[5] = 1 - d[5]
    elif kind == "explicit-attrs" and d[4] == 1:
        attrs = set_attrs_of(spec_of_desc(d))
        for j, job in enumerate(d[1]):
            for p, o in enumerate(job):
                o[2:5] = attrs[j][p]
        d[4], d[5] = 0, 0
    else:
        kind = "copy"
    return kind, d


def mutate_op(rng, odesc):
    """standalone operation description -> (label, different content)"""
    d = copy.deepcopy(odesc)
    ms = d[1]
    choices = ["dur", "mach-add", "mach-replace", "job", "pos", "id"]
    if len(ms) > 1:
        choices += ["mach-order", "mach-drop"]
    kind = rng.choice(choices)
    if kind == "dur":
        d[2] += rng.choice([1, 3])
    elif kind == "mach-add":
        ms.insert(rng.randint(0, len(ms)), max(ms) + 1)
    elif kind == "mach-replace":
        ms[rng.randrange(len(ms))] = max(ms) + 1
    elif kind == "mach-order":
        d[1] = ms[1:] + ms[:1]
    elif kind == "mach-drop":
        ms.pop(rng.randrange(len(ms)))
    elif kind == "job":
        d[3] += 1
    elif kind == "pos":
        d[4] += 1
    elif kind == "id":
        d[5] += rng.choice([1, -1])
    d[6] = 0
    return kind, d


def gen_op(rng):
    nm = rng.randint(1, 4)
    ms = rng.sample(range(nm), rng.randint(1, nm)) if rng.random() < 0.5 else [rng.randrange(nm)]
    if rng.random() < 0.4:
        attrs = [-1, -1, -1]
    else:
        attrs = [rng.randint(0, 3), rng.randint(0, 3), rng.randint(0, 9)]
    return [OP, ms, rng.choice([0, 1, 2, 5, 9, 1000]), attrs[0], attrs[1], attrs[2], 0]


def gen_rows(rng, spec, p_sched=0.8):
    nm = common.num_machines_of(spec)
    rows = [[] for _ in range(nm)]
    ends = [0] * nm
    order = positions(spec)
    rng.shuffle(order)
    for j, p in order:
        if rng.random() > p_sched:
            continue
        ms, d = spec[j][p]
        m = rng.choice(ms)
        st = ends[m] + rng.choice([0, 0, 1, 3])
        rows[m].append([j, p, st, m])
        ends[m] = st + d
    return rows


def rows_valid(spec, rows):
    for m, row in enumerate(rows):
        end = 0
        for j, p, st, mm in row:
            if mm != m or j >= len(spec) or p >= len(spec[j]) or m not in spec[j][p][0] or st < end:
                return False
            end = st + spec[j][p][1]
    return True


def mutate_sched(rng, sdesc):
    """-> (label, description, same_content?) or None when the draw does not apply."""
    d = copy.deepcopy(sdesc)
    spec = spec_of_desc(d[1])
    rows = d[2]
    entries = [(m, k) for m, row in enumerate(rows) for k in range(len(row))]
    sched_keys = {(e[0], e[1]) for row in rows for e in row}
    unsched = [(j, p) for j, p in positions(spec) if (j, p) not in sched_keys]
    kind = rng.choice(["start", "start", "reassign", "reassign", "swap-identity", "dur-scheduled",
                       "dur-unscheduled", "mach-scheduled", "mach-order-scheduled", "tail-op",
                       "shift-ids", "drop-entry", "add-entry", "empty-row", "meta", "name", "path", "copy"])
    same = False
    if kind == "start" and entries:
        m, k = rng.choice(entries)
        delta = rng.choice([1, 2, 7])
        for e in rows[m][k:]:
            e[2] += delta
    elif kind == "reassign":
        cands = [(m, k) for m, k in entries if len(spec[rows[m][k][0]][rows[m][k][1]][0]) > 1]
        if not cands:
            return None
        m, k = rng.choice(cands)
        j, p, st, _ = rows[m].pop(k)
        others = [x for x in spec[j][p][0] if x != m and x < len(rows)]
        if not others:
            return None
        m2 = rng.choice(others)
        end = 0
        for e in rows[m2]:
            end = e[2] + spec[e[0]][e[1]][1]
        rows[m2].append([j, p, max(st, end), m2])
    elif kind == "swap-identity":
        cands = []
        for m, k in entries:
            j, p = rows[m][k][0], rows[m][k][1]
            for j2, p2 in unsched:
                if m in spec[j2][p2][0] and (k == len(rows[m]) - 1 or spec[j2][p2][1] <= spec[j][p][1]):
                    cands.append((m, k, j2, p2))
        if not cands:
            return None
        m, k, j2, p2 = rng.choice(cands)
        rows[m][k][0], rows[m][k][1] = j2, p2
    elif kind == "dur-scheduled" and entries:
        m, k = rng.choice(entries)
        j, p = rows[m][k][0], rows[m][k][1]
        if k == len(rows[m]) - 1:
            d[1][1][j][p][1] += rng.choice([1, 4])
        elif spec[j][p][1] > 0:
            d[1][1][j][p][1] -= 1
        else:
            return None
    elif kind == "dur-unscheduled":
        if not unsched:
            return None
        j, p = rng.choice(unsched)
        d[1][1][j][p][1] += 1
        same = True
    elif kind == "mach-scheduled" and entries:
        m, k = rng.choice(entries)
        j, p = rows[m][k][0], rows[m][k][1]
        d[1][1][j][p][0].append(fresh_machine(spec))
        d[4] = 0
    elif kind == "mach-order-scheduled":
        cands = [(m, k) for m, k in entries if len(spec[rows[m][k][0]][rows[m][k][1]][0]) > 1]
        if not cands:
            return None
        m, k = rng.choice(cands)
        j, p = rows[m][k][0], rows[m][k][1]
        ms = d[1][1][j][p][0]
        d[1][1][j][p][0] = ms[1:] + ms[:1]
    elif kind == "tail-op":
        # a new last operation of the last job: no existing operation changes
        d[1][1][-1].append([[0], 2, -1, -1, -1])
        same = True
    elif kind == "shift-ids":
        # a new last operation of job 0 shifts the operation ids of the later jobs
        if not any(e[0] > 0 for row in rows for e in row):
            return None
        d[1][1][0].append([[0], 2, -1, -1, -1])
    elif kind == "drop-entry" and entries:
        m = rng.choice([m for m, row in enumerate(rows) if row])
        rows[m].pop()
    elif kind == "add-entry":
        if not unsched:
            return None
        j, p = rng.choice(unsched)
        ok = [x for x in spec[j][p][0] if x < len(rows)]
        if not ok:
            return None
        m = rng.choice(ok)
        end = 0
        for e in rows[m]:
            end = e[2] + spec[e[0]][e[1]][1]
        rows[m].append([j, p, end, m])
    elif kind == "empty-row":
        rows.append([])
        d[4] = 0
    elif kind == "meta":
        d[3] = rng.randint(1, 9) if d[3] == 0 else 0
        same = True
    elif kind == "name":
        d[1][2] = [rng.randint(97, 122) for _ in range(rng.randint(0, 4))]
        same = True
    elif kind == "path":
        nm = common.num_machines_of(spec)
        if d[4] == 0 and len(rows) != nm:
            return None
        d[4] = 1 - d[4]
        same = True
    elif kind == "copy":
        same = True
    else:
        return None
    if d[1][4] != 1 and kind in ("tail-op", "shift-ids"):
        return None
    if not rows_valid(spec_of_desc(d[1]), rows):
        return None
    if d[4] == 1 and len(rows) != common.num_machines_of(spec_of_desc(d[1])):
        d[4] = 0
    return kind, d, same


def gen_foreign(rng):
    t = rng.randrange(5)
    return [FOREIGN, t, 0 if t == 1 else rng.randint(0, 3)]


# --------------------------------------------------------------------------

SUBCLAIMS = ["reflexive", "symmetric", "transitive", "same-content=>equal",
             "different-content=>unequal", "ne-is-not-eq", "equal=>equal-hash", "comparison-raised"]


class C15(Check):
    pid = "C15"
    theorem_file = "coq/properties/C15.v"
    nontrivial_rule = ("a case is non-trivial when it compares >= 2 separately built library objects; "
                       "distinct = distinct SHA1 of the whole case (object descriptions)")
    assumptions = [
        "objects are built through the public constructors (Operation, ScheduledOperation, Schedule, "
        "JobShopInstance / from_matrices / Schedule.add) with int machines, durations, start times",
        "content of a Schedule = its machine rows (operation fields, start, machine); content of an instance "
        "= its jobs; name / metadata / the unscheduled part of a schedule's instance are not content "
        "(no __eq__ of the library reads them; stated as C15_*_ignores_* theorems)",
        "foreign values are int / None / str / tuple / list; foreign objects with an __eq__ of their own "
        "that answers True to anything (mock.ANY) are outside the property's quantifier"]
    modelled_not_verified = [
        "modelled (coq/model/Equality.v): Operation.__eq__ (as repaired by /repo commit b4f9bd7) and "
        "__hash__, ScheduledOperation.__eq__, Schedule.__eq__, JobShopInstance.__eq__, "
        "JobShopInstance.set_operation_attributes; tied by differential execution of ==, != and hash on "
        "generated objects, not verified",
        "assumed of CPython: the ==/!= operator protocol (method, reflected method on NotImplemented, identity), "
        "object.__ne__ = not __eq__, list.__eq__ = same length and element-wise == (its identity shortcut is "
        "harmless for a reflexive ==), int equality, hash() of equal ints equal, isinstance on the four classes"]

    def budget(self):
        return 2500 if self.tier == "quick" else 40000

    def search_budget(self):
        return 5000 if self.tier == "quick" else 40000

    # ---- generation -------------------------------------------------------
    def _case(self, objs, classes, label):
        n = len(objs)
        expect = [[2 if (classes[i] is None or classes[j] is None) else int(classes[i] == classes[j])
                   for j in range(n)] for i in range(n)]
        return {"objs": objs, "expect": expect, "label": label}

    def _gen_spec(self, rng):
        return common.gen_instance(rng, max_jobs=4, max_machines=4, max_ops=4,
                                   allow_empty_jobs=rng.random() < 0.15, big=rng.random() < 0.1)

    def make_case(self, rng):
        r = rng.random()
        if r < 0.22:
            return self._case_inst(rng)
        if r < 0.44:
            return self._case_sched(rng)
        if r < 0.62:
            return self._case_op(rng)
        if r < 0.80:
            return self._case_sop(rng)
        if r < 0.90:
            return self._case_opof(rng)
        return self._case_mixed(rng)

    def _pattern(self, rng, base, copy_fn, mut_fn, kind):
        """objects + intended classes from a base description.
        copy_fn(desc) -> (label, same-content desc); mut_fn(desc) -> (label, different desc) | None."""
        pat = rng.choice(["copy", "mut", "copy-mut", "copy-copy", "mut-mut", "mut-mutcopy", "mut-back"])
        objs, classes, labels = [base], [0], []

        def add_copy(of, cls):
            lab, d = copy_fn(of)
            objs.append(d)
            classes.append(cls)
            labels.append("same:" + lab)
            return d

        def add_mut(of, cls):
            for _ in range(8):
                m = mut_fn(of)
                if m is not None:
                    objs.append(m[1])
                    classes.append(cls)
                    labels.append("diff:" + m[0])
                    return m[1]
            return None

        if pat == "copy":
            add_copy(base, 0)
        elif pat == "mut":
            add_mut(base, 1)
        elif pat == "copy-mut":
            add_copy(base, 0)
            add_mut(base, 1)
        elif pat == "copy-copy":
            c = add_copy(base, 0)
            add_copy(c, 0)
        elif pat == "mut-mut":
            add_mut(base, 1)
            if add_mut(base, None) is None:
                pass
        elif pat == "mut-mutcopy":
            m = add_mut(base, 1)
            if m is not None:
                add_copy(m, 1)
        elif pat == "mut-back":
            m = add_mut(base, 1)
            if m is not None:
                add_copy(base, 0)
                add_copy(m, 1)
        if len(objs) == 1:
            add_copy(base, 0)
        if rng.random() < 0.5:
            order = list(range(len(objs)))
            rng.shuffle(order)
            objs = [objs[i] for i in order]
            classes = [classes[i] for i in order]
        return self._case(objs, classes, kind + "/" + "+".join(labels))

    def _case_inst(self, rng):
        spec = self._gen_spec(rng)
        base = inst_desc(spec, name=[rng.randint(97, 122)], meta=rng.choice([0, 0, 3]),
                         path=1 if rng.random() < 0.2 else 0)
        if rng.random() < 0.08:
            base[4], base[5] = 0, 0      # operations keep (-1, -1, -1)

        def mut(d):
            if d[4] == 1 and rng.random() < 0.06:
                d2 = copy.deepcopy(d)
                d2[4], d2[5] = 0, 0
                return ("no-attrs", d2) if positions(spec_of_desc(d2)) else None
            kind, s2 = mutate_spec(rng, spec_of_desc(d))
            return kind, inst_desc(s2, name=d[2], meta=d[3], set_attrs=d[4], path=d[5] if d[4] == 1 else 0)

        return self._pattern(rng, base, lambda d: vary_inst(rng, d), mut, "inst")

    def _case_sched(self, rng):
        spec = self._gen_spec(rng)
        if not all(spec):
            spec = [job for job in spec if job] or [[[[0], 1]]]
        rows = gen_rows(rng, spec, p_sched=rng.choice([0.5, 0.8, 1.0]))
        base = [SCHED, inst_desc(spec), rows, rng.choice([0, 0, 4]), 0]

        def same(d):
            for _ in range(10):
                m = mutate_sched(rng, d)
                if m is not None and m[2]:
                    return m[0], m[1]
            return "copy", copy.deepcopy(d)

        def mut(d):
            m = mutate_sched(rng, d)
            if m is None or m[2]:
                return None
            return m[0], m[1]

        return self._pattern(rng, base, same, mut, "sched")

    def _case_op(self, rng):
        base = gen_op(rng)

        def same(d):
            d2 = copy.deepcopy(d)
            if len(d2[1]) == 1 and rng.random() < 0.5:
                d2[6] = 1
                return "int-machine", d2
            return "copy", d2

        return self._pattern(rng, base, same, lambda d: mutate_op(rng, d), "op")

    def _case_sop(self, rng):
        op = gen_op(rng)
        base = [SOP, op, rng.choice([0, 1, 5, 40]), rng.choice(op[1])]

        def same(d):
            return "copy", copy.deepcopy(d)

        def mut(d):
            d2 = copy.deepcopy(d)
            kind = rng.choice(["start", "machine", "op"])
            if kind == "start":
                d2[2] += rng.choice([1, 2, -1]) if d2[2] > 0 else 1
                return "start", d2
            if kind == "machine":
                others = [m for m in d2[1][1] if m != d2[3]]
                if not others:
                    return None
                d2[3] = rng.choice(others)
                return "machine", d2
            lab, o2 = mutate_op(rng, d2[1])
            if d2[3] not in o2[1]:
                return None
            d2[1] = o2
            return "op-" + lab, d2

        return self._pattern(rng, base, same, mut, "sop")

    def _case_opof(self, rng):
        """operations taken out of separately built instances"""
        spec = self._gen_spec(rng)
        spec = [job for job in spec if job] or [[[[0], 1]]]
        idesc = inst_desc(spec)
        pos = positions(spec)
        j, p = rng.choice(pos)
        attrs = set_attrs_of(spec)
        objs = [[OPOF, idesc, j, p], [OPOF, vary_inst(rng, idesc)[1], j, p]]
        classes = [0, 0]
        labels = ["same:other-instance"]
        # the same five fields written by hand
        objs.append([OP, list(spec[j][p][0]), spec[j][p][1]] + attrs[j][p] + [0])
        classes.append(0)
        labels.append("same:by-hand")
        if rng.random() < 0.5:
            # the same operation reached through a history: hashed inside a larger instance, then re-packed
            extra = [job for job in self._gen_spec(rng) if job][:rng.randint(1, 2)] or [[[[0], 1]]]
            at = rng.choice([0, 0, len(spec)])
            big = extra + spec if at == 0 else spec + extra
            keep = list(range(len(extra), len(big))) if at == 0 else list(range(len(spec)))
            objs.append([REPACK, inst_desc(big), keep, j, p])
            classes.append(0)
            labels.append("same:repacked-after-hashing" + ("-ids-shifted" if at == 0 else ""))
        if rng.random() < 0.7 and len(pos) > 1:
            j2, p2 = rng.choice([q for q in pos if q != (j, p)])
            objs.append([OPOF, copy.deepcopy(idesc), j2, p2])
            classes.append(1)
            labels.append("diff:other-place" + ("-same-machines-duration" if spec[j2][p2] == spec[j][p] else ""))
        else:
            objs.append([OP, list(spec[j][p][0]), spec[j][p][1], -1, -1, -1, 0])
            classes.append(1)
            labels.append("diff:not-in-an-instance")
        return self._case(objs, classes, "opof/" + "+".join(labels))

    def _case_mixed(self, rng):
        """different kinds side by side, foreign values included"""
        spec = self._gen_spec(rng)
        spec = [job for job in spec if job] or [[[[0], 1]]]
        idesc = inst_desc(spec)
        j, p = rng.choice(positions(spec))
        m = rng.choice(spec[j][p][0])
        pool = [
            ([OPOF, idesc, j, p], 0),
            ([SOP, [OPOF, idesc, j, p], 0, m], 1),
            ([SCHED, idesc, [[[j, p, 0, m]] if x == m else [] for x in range(common.num_machines_of(spec))], 0, 0], 2),
            (idesc, 3),
            ([SOP, [OPOF, idesc, j, p], 0, m], 1),
        ]
        f = gen_foreign(rng)
        pool.append((f, ("f", f[1], f[2])))
        g = gen_foreign(rng)
        pool.append((g, ("f", g[1], g[2])))
        pool.append((copy.deepcopy(f), ("f", f[1], f[2])))
        k = rng.randint(2, 4)
        chosen = rng.sample(pool, k)
        return self._case([copy.deepcopy(c[0]) for c in chosen], [c[1] for c in chosen], "mixed")

    def gen_cases(self, rng, n):
        cases = []
        for _ in range(n):
            c = self.make_case(rng)
            cases.append(c)
            self.note("cases")
            self.note("kind_" + c["label"].split("/")[0])
            self.note("objects", len(c["objs"]))
            for part in c["label"].split("/", 1)[-1].split("+"):
                if part.startswith(("same:", "diff:")):
                    self.note(part)
            for row in c["expect"]:
                for e in row:
                    self.note(["pairs_intended_different", "pairs_intended_equal", "pairs_unlabelled"][e])
        return cases

    # ---- implementation ---------------------------------------------------
    def run_impl(self, case):
        common.import_impl()
        from job_shop_lib import Operation

        descs = case["objs"]
        objs = [build(d) for d in descs]
        n = len(objs)
        eq = [[_cmp(lambda a=objs[i], b=objs[j]: a == b) for j in range(n)] for i in range(n)]
        ne = [[_cmp(lambda a=objs[i], b=objs[j]: a != b) for j in range(n)] for i in range(n)]
        hashes = [hash(o) if isinstance(o, Operation) else None for o in objs]
        heq = [[-1 if hashes[i] is None or hashes[j] is None else int(hashes[i] == hashes[j])
                for j in range(n)] for i in range(n)]
        snaps = [snapshot(d, o) for d, o in zip(descs, objs)]
        return [eq, ne, heq, snaps]

    def model_requests(self, case, obs):
        eq, _ne, _heq, snaps = obs
        mobjs = [model_desc(d) for d in case["objs"]]
        return [(1501, mobjs), (1502, [snaps, eq]), (1503, mobjs)]

    # ---- judgement --------------------------------------------------------
    def judge(self, case, obs, outs):
        eq, ne, heq, snaps = obs
        (m_eq, m_ne, m_hk, m_cont), (ctab, refl, sym, trans), unrep = outs
        n = len(case["objs"])
        kinds = [KIND_NAME[d[0]] for d in case["objs"]]
        fails = []

        # tie
        if snaps != m_cont:
            i = next(i for i in range(n) if snaps[i] != m_cont[i])
            fails.append(Failure("tie", "construction",
                                 f"object #{i} ({kinds[i]}): fields read back from the implementation differ from "
                                 f"the model's construction", expected=m_cont[i], observed=snaps[i]))
        if eq != m_eq:
            fails.append(Failure("tie", "eq-impl-vs-model", "the == table differs from the model's",
                                 expected=m_eq, observed=eq))
        if ne != m_ne:
            fails.append(Failure("tie", "ne-impl-vs-model", "the != table differs from the model's",
                                 expected=m_ne, observed=ne))
        for i in range(n):
            for j in range(n):
                if (m_hk[i][j] == -1) != (heq[i][j] == -1) or (m_hk[i][j] == 1 and heq[i][j] != 1):
                    fails.append(Failure("tie", "hash-impl-vs-model",
                                         f"objects #{i}, #{j}: the model hashes the same key but the "
                                         f"implementation's hashes differ", expected=m_hk, observed=heq))
                    break
            else:
                continue
            break
        for i in range(n):
            for j in range(n):
                if case["expect"][i][j] != 2 and case["expect"][i][j] != ctab[i][j]:
                    fails.append(Failure("tie", "generator-label",
                                         f"harness self-check: objects #{i}, #{j} were generated as "
                                         f"{'equal' if case['expect'][i][j] else 'different'} content but their "
                                         f"snapshots say otherwise", expected=case["expect"], observed=ctab))
                    break
            else:
                continue
            break

        # oracle: the property on the implementation's own answers
        defect_note = ""
        if unrep == eq and eq != m_eq:
            defect_note = (" [the implementation's whole == table coincides with the model of the UNREPAIRED "
                           "Operation.__eq__ (self.__slots__ == value.__slots__), cf. theorem "
                           "C15_op_eq_unrepaired_refuted]")
        seen = set()

        def add(sub, detail, **kw):
            if sub not in seen:
                seen.add(sub)
                fails.append(Failure("oracle", sub, detail + defect_note, **kw))

        for i in range(n):
            for j in range(n):
                if eq[i][j] > 1 or ne[i][j] > 1:
                    add("comparison-raised", f"objects #{i} ({kinds[i]}) and #{j} ({kinds[j]}): == or != raised / "
                                             f"returned a non-bool", observed=[eq[i][j], ne[i][j]])
                    continue
                if ctab[i][j] == 1 and eq[i][j] != 1:
                    add("same-content=>equal",
                        f"objects #{i} and #{j} ({kinds[i]}) have the same content but #{i} == #{j} is False",
                        expected=1, observed=[snaps[i], snaps[j]])
                if ctab[i][j] == 0 and eq[i][j] != 0:
                    add("different-content=>unequal",
                        f"objects #{i} ({kinds[i]}) and #{j} ({kinds[j]}) differ in content but #{i} == #{j} is True",
                        expected=0, observed=[snaps[i], snaps[j]])
                if ne[i][j] != 1 - eq[i][j]:
                    add("ne-is-not-eq", f"objects #{i}, #{j}: (a != b) is not the negation of (a == b)",
                        observed=[eq[i][j], ne[i][j]])
                if eq[i][j] == 1 and heq[i][j] == 0:
                    add("equal=>equal-hash", f"operations #{i} == #{j} but their hashes differ",
                        observed=[snaps[i], snaps[j]])
        if not refl:
            add("reflexive", "some object is not == to itself", observed=eq)
        if not sym:
            add("symmetric", "a == b and b == a disagree for some pair", observed=eq)
        if not trans:
            add("transitive", "a == b and b == c but not a == c for some triple", observed=eq)
        return fails

    def nontrivial(self, case, obs):
        return sum(1 for d in case["objs"] if d[0] != FOREIGN) >= 2

    def summarize(self, case):
        return case

    def shrink_candidates(self, case):
        objs = case["objs"]
        n = len(objs)
        unknown = lambda k: [[2] * k for _ in range(k)]  # noqa: E731
        if n > 2:
            for drop in range(n - 1, -1, -1):
                keep = [i for i in range(n) if i != drop]
                yield {"objs": [objs[i] for i in keep], "expect": unknown(n - 1),
                       "label": case["label"]}
        # instances only: drop the same job / the same trailing operation everywhere
        if all(d[0] == INST for d in objs):
            nj = min(len(d[1]) for d in objs)
            for j in range(nj - 1, -1, -1):
                if nj > 1:
                    new = copy.deepcopy(objs)
                    for d in new:
                        d[1].pop(j)
                    yield {"objs": new, "expect": unknown(n), "label": case["label"]}
                if all(len(d[1][j]) > 1 for d in objs):
                    new = copy.deepcopy(objs)
                    for d in new:
                        d[1][j].pop()
                    yield {"objs": new, "expect": unknown(n), "label": case["label"]}
        # schedules only: drop the last entry of the same row everywhere
        if all(d[0] == SCHED for d in objs):
            nr = min(len(d[2]) for d in objs)
            for m in range(nr):
                if all(len(d[2][m]) > 0 for d in objs):
                    new = copy.deepcopy(objs)
                    for d in new:
                        d[2][m].pop()
                    yield {"objs": new, "expect": unknown(n), "label": case["label"]}


CHECK = C15
