"""C09 — rejected requests change nothing."""
from . import session
from .framework import Failure
from .sessioncheck import SessionCheck


def is_marked(ev):
    return (ev[0] == 0 and len(ev) >= 5 and ev[4] == 1) or (ev[0] == 8 and len(ev) >= 4 and ev[3] == 1)


class C09(SessionCheck):
    pid = "C09"
    inst_kwargs = dict(allow_empty_jobs=True)
    gen_kwargs = dict(p_invalid=0.3, p_query=0.1, p_reset=0.03, p_snapshot=1.0, p_obs=0.04,
                      start_observers_choices=[0, 1, 2, 3, 4], snapshot_around_invalid=True, p_env=0.45)
    assumptions = ["valid instance: durations >= 0", "job ids passed to env.step are in range (the action space's own range)"]
    modelled_not_verified = [
        "modelled: Dispatcher.dispatch (all checks and writes in source order), ScheduledOperation.__init__, Schedule.add, "
        "the dispatcher part of SingleJobShopGraphEnv.step, History/UnscheduledOperations/MakespanReward/IdleTimeReward "
        "observers (coq/model/World.v, Observers.v)",
        "NOT modelled (harness-only, by deep before/after snapshots of the real objects): the feature observers, the graph "
        "updater and the observation of the environment around rejected steps"]

    def run_impl(self, case):
        outs = session.run_session(case["spec"], case["filters"], case["events"], case.get("env"))
        stripped = [ev for ev in case["events"] if not is_marked(ev)]
        outs2 = session.run_session(case["spec"], case["filters"], stripped, case.get("env"))
        return {"outs": outs, "outs_without": outs2}

    def model_requests(self, case, obs):
        return super().model_requests(case, obs["outs"])

    def judge(self, case, obs, outs):
        model_out = outs[0]
        io = obs["outs"]
        evs = case["events"]
        fails = self.tie_failures(case, io, model_out)
        for i, (ev, o) in enumerate(zip(evs, io)):
            if ev[0] in (0, 8) and is_marked(ev):
                if o and o[0] == 0:
                    fails.append(Failure("oracle", "bad-request-accepted",
                                         f"event #{i} {ev}: a request that must be rejected was accepted"))
                    continue
                if len(o) > 1:
                    fails.append(Failure("oracle", "notified-on-rejection",
                                         f"event #{i} {ev}: observers were notified although the request raised"))
                if 0 < i and i + 1 < len(evs) and evs[i - 1][0] == 7 and evs[i + 1][0] == 7:
                    if io[i - 1] != io[i + 1]:
                        fails.append(Failure("oracle", "rejected-request-changed-state",
                                             f"event #{i} {ev} raised (code {o[0]}) but the publicly visible state of "
                                             f"dispatcher/observers/environment differs before and after",
                                             expected=io[i - 1], observed=io[i + 1]))
        # as if never made: the run without the rejected requests gives the same outputs elsewhere
        kept = [o for ev, o in zip(evs, io) if not is_marked(ev)]
        if kept != obs["outs_without"]:
            k = next((n for n, (a, b) in enumerate(zip(kept, obs["outs_without"])) if a != b), -1)
            fails.append(Failure("oracle", "as-if-never-made",
                                 f"the script without its rejected requests behaves differently at kept event #{k}",
                                 expected=obs["outs_without"][k] if k >= 0 else None,
                                 observed=kept[k] if k >= 0 else None))
        return fails

    def nontrivial(self, case, obs):
        return sum(1 for ev in case["events"] if is_marked(ev)) >= 1 and super().nontrivial(case, obs["outs"])

    nontrivial_rule = ("event scripts from the seeded generator with rejected requests of every kind injected at random "
                       "points (snapshots before and after each); non-trivial = >= 1 rejected request, >= 2 jobs, >= 2 "
                       "accepted dispatches; distinct = SHA1 of the case")

    def shrink_candidates(self, case):
        # keep snapshot/invalid/snapshot triples together: only drop suffixes and lower durations
        evs = case["events"]
        n = len(evs)
        for cut in (n // 2, n * 3 // 4, n - 2):
            if 0 < cut < n:
                yield dict(case, events=evs[:cut] + [[7]])


CHECK = C09
