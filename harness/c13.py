"""C13 — dense rewards add up to the sparse objective."""
from . import common
from .framework import Failure
from .sessioncheck import SessionCheck


class C13(SessionCheck):
    pid = "C13"
    inst_kwargs = dict(allow_empty_jobs=True, big=True, huge=True)
    gen_kwargs = dict(p_invalid=0.08, p_query=0.05, p_reset=0.06, p_snapshot=1.0, p_obs=0.06, obs_kinds=(2, 3),
                      start_observers_choices=[2, 3, 2, 3, 0], p_env=0.35)
    assumptions = ["valid instance: durations >= 0",
                   "reward observers subscribed at the initial state (constructed before the first dispatch) - the "
                   "sums are compared from the initial state or the last reset on"]
    modelled_not_verified = [
        "modelled: MakespanReward / IdleTimeReward (update, reset, last_reward, constructor) and the dispatcher part of "
        "SingleJobShopGraphEnv.step (coq/model/Observers.v, World.v)",
        "env.step's returned reward is read from the real environment and compared with the reward emitted by that "
        "very dispatch (harness-side; the model states it as last element of the list)"]

    @staticmethod
    def _exact(x):
        """the number as the library produced it: ints stay ints (Python ints are exact at any size; converting
        to float here would round values beyond 2^53 and accuse the library of the harness's own rounding)"""
        if isinstance(x, bool):
            return int(x)
        if isinstance(x, int):
            return x
        if hasattr(x, "item"):
            x = x.item()
            if isinstance(x, int):
                return x
        x = float(x)
        return int(x) if x.is_integer() and abs(x) < 2 ** 53 else x

    def gen_cases(self, rng, n):
        cases = super().gen_cases(rng, n)
        # the multi-instance environment with a reward function installed through its public setter
        # (`env.reward_function = IdleTimeReward(env.dispatcher)`): judged by the property's clauses (no model)
        for _ in range(3 if self.tier == "quick" else 12):
            cases.append({"kind": "multi-setter", "seed": rng.randrange(10 ** 6), "idle": 1,   # (a second MakespanReward is refused by the singleton guard)
                          "episodes": rng.randint(1, 3)})
            self.note("multi_env_reward_function_setter")
        return cases

    @staticmethod
    def run_multi_setter(case):
        import random as _random

        common.import_impl()
        from job_shop_lib.dispatching import DispatcherObserverConfig
        from job_shop_lib.dispatching.feature_observers import FeatureObserverType
        from job_shop_lib.generation import GeneralInstanceGenerator
        from job_shop_lib.graphs import build_agent_task_graph
        from job_shop_lib.reinforcement_learning import IdleTimeReward, MakespanReward, MultiJobShopGraphEnv

        r = _random.Random(case["seed"])
        gen = GeneralInstanceGenerator(num_jobs=(2, 4), num_machines=(2, 3), allow_less_jobs_than_machines=True,
                                       seed=case["seed"])
        env = MultiJobShopGraphEnv(instance_generator=gen,
                                   feature_observer_configs=[DispatcherObserverConfig(FeatureObserverType.IS_READY)],
                                   graph_initializer=build_agent_task_graph)
        problems = []
        for ep in range(case["episodes"]):
            env.reset()
            env.reward_function = (IdleTimeReward if case["idle"] else MakespanReward)(env.dispatcher)
            rf = env.reward_function
            k = 0
            done = False
            while not done:
                op = r.choice(env.dispatcher.available_operations())
                _, reward, done, _, _ = env.step((op.job_id, r.choice(op.machines)))
                k += 1
                sched = env.dispatcher.schedule
                if case["idle"]:
                    target = -sum(max(s.end_time for s in row) - sum(s.operation.duration for s in row)
                                  for row in sched.schedule if row)
                else:
                    target = -sched.makespan()
                if len(rf.rewards) != k or any(x > 0 for x in rf.rewards) or sum(rf.rewards) != target \
                        or reward != rf.rewards[-1]:
                    problems.append([ep, k, len(rf.rewards), C13._exact(sum(rf.rewards)), C13._exact(target),
                                     C13._exact(reward)])
                    done = True
        return {"problems": problems}

    def run_impl(self, case):
        if case.get("kind") == "multi-setter":
            return self.run_multi_setter(case)
        from . import session

        sess = session.ImplSession(case["spec"], case["filters"], case.get("env"))
        outs = []
        step_rewards = []
        for ev in case["events"]:
            o = sess.run_event(ev)
            outs.append(o)
            if ev[0] == 8 and o and o[0] == 0:
                rw = sess.env.reward_function
                step_rewards.append([self._exact(sess.last_step[1]), list(map(self._exact, rw.rewards)),
                                     bool(sess.last_step[2]), bool(sess.last_step[3]),
                                     bool(sess.dispatcher.schedule.is_complete())])
            elif ev[0] == 8:
                step_rewards.append(None)
        env_rw = None
        if sess.env is not None:
            env_rw = [type(sess.env.reward_function).__name__, list(map(self._exact, sess.env.reward_function.rewards))]
        return {"outs": outs, "steps": step_rewards, "env_rw": env_rw}

    def model_requests(self, case, obs):
        if case.get("kind") == "multi-setter":
            return []
        return super().model_requests(case, obs["outs"])

    def extra_requests(self, case, outs):
        snaps = [o[0][3] for _, o in self.snapshots(case, outs)]
        return [(5, [case["spec"], snaps])]

    def judge(self, case, obs, outs):
        if case.get("kind") == "multi-setter":
            return [Failure("oracle", "multi-env-reward-function-setter",
                            f"episode {p[0]}, step {p[1]}: {p[2]} rewards emitted for {p[1]} steps, their sum is "
                            f"{p[3]}, minus the objective of the schedule is {p[4]}, the step returned {p[5]}",
                            observed=p) for p in obs["problems"][:1]]
        model_out, _cl, tracking = outs
        io = obs["outs"]
        fails = self.tie_failures(case, io, model_out)
        evs = case["events"]
        # which reward observers are, BY THE SCRIPT, subscribed exactly once since the start of the current episode
        # (the sums are stated for those); tracked from the events, not from the implementation's subscriber list
        count = {}          # idx -> number of subscriptions the script asked for
        clean = {}          # idx -> subscribed once, before the first dispatch of the episode
        fresh = {}          # idx -> holds no reward from an earlier episode / an earlier subscription
        nobj = 0
        started = False     # an accepted dispatch happened in the current episode
        snap_k = 0
        for i, (ev, o) in enumerate(zip(evs, io)):
            t = ev[0]
            ok = bool(o) and o[0] == 0
            if t == 3 and ok:
                idx = o[1]
                nobj = max(nobj, idx + 1)
                nosub = len(ev) > 2 and ev[2] == 1
                count[idx] = 0 if nosub else 1
                # (a reward observer constructed in the middle of an episode reads the makespan reached so far: it is
                # fresh for a later subscription only if it is reset, as a subscriber, before)
                fresh[idx] = not started
                clean[idx] = (not started) and not nosub
            elif t == 6 and ok:
                idx = o[1]
                if idx >= nobj:
                    nobj = idx + 1
                    count[idx] = 1
                    fresh[idx] = not started
                    clean[idx] = not started
            elif t == 5 and ok:
                idx = ev[1]
                count[idx] = count.get(idx, 0) + 1
                clean[idx] = (not started) and count[idx] == 1 and fresh.get(idx, False)
            elif t == 4 and ok:
                idx = ev[1]
                count[idx] = max(0, count.get(idx, 0) - 1)
                clean[idx] = False
            elif t in (0, 8) and ok:
                started = True
                for idx in count:
                    if count[idx] > 0:
                        fresh[idx] = False
            elif t == 2 and ok:
                started = False
                for idx in count:
                    if count[idx] > 0:
                        fresh[idx] = True
                    clean[idx] = count[idx] == 1
            elif t == 7:
                want = tracking[snap_k]
                snap_k += 1
                nsched, mk, idle = want[1], want[2], want[3]
                for idx, ob in enumerate(o[5]):
                    if not clean.get(idx):
                        continue
                    if ob[0] == 2:
                        rw = ob[1]
                        self.sum_checks(fails, i, "makespan", rw, -mk, nsched)
                        if ob[2] != mk:
                            fails.append(Failure("oracle", "makespan:current", f"snapshot #{i}: current_makespan="
                                                 f"{ob[2]} but the schedule's makespan is {mk}"))
                        if ob[3] != (rw[-1] if rw else 0):
                            fails.append(Failure("oracle", "last-reward", f"snapshot #{i}: last_reward != last emitted"))
                    if ob[0] == 3:
                        self.sum_checks(fails, i, "idle", ob[1], -idle, nsched)
        # environment: reward returned by step = reward emitted for that step; done iff complete
        k = 0
        n_ok = 0
        for i, (ev, o) in enumerate(zip(evs, io)):
            if ev[0] == 2 and o and o[0] == 0:
                n_ok = 0
            if ev[0] == 0 and o and o[0] == 0 and case.get("env") is not None:
                n_ok += 1       # dispatched directly on env.dispatcher: a reward is emitted for it as well
            if ev[0] == 8:
                st = obs["steps"][k]
                k += 1
                if st is None:
                    continue
                n_ok += 1
                ret, rewards, done, trunc, complete = st
                if len(rewards) != n_ok or ret != rewards[-1]:
                    fails.append(Failure("oracle", "step-reward",
                                         f"event #{i}: env.step returned reward {ret}; rewards emitted so far in this "
                                         f"episode: {rewards} (expected exactly {n_ok}, the last one returned)"))
                if done != complete or trunc:
                    fails.append(Failure("oracle", "step-done", f"event #{i}: done={done}, truncated={trunc}, "
                                         f"schedule complete={complete}"))
        # environment's own reward observer: sums at the end
        if obs["env_rw"] is not None and tracking:
            name, rw = obs["env_rw"]
            want = tracking[-1]
            tgt = -want[2] if name == "MakespanReward" else -want[3]
            self.sum_checks(fails, len(evs) - 1, "env-" + name, rw, tgt, want[1])
        return fails

    @staticmethod
    def sum_checks(fails, i, what, rw, target, nsched):
        if len(rw) != nsched:
            fails.append(Failure("oracle", what + ":one-per-dispatch",
                                 f"snapshot #{i}: {len(rw)} rewards for {nsched} scheduled operations", observed=rw))
        if any(r > 0 for r in rw):
            fails.append(Failure("oracle", what + ":non-positive", f"snapshot #{i}: positive reward in {rw}", observed=rw))
        if sum(rw) != target:
            fails.append(Failure("oracle", what + ":sum",
                                 f"snapshot #{i}: rewards sum to {sum(rw)}, the objective computed from the schedule "
                                 f"rows is {target}", expected=target, observed=rw))

    def nontrivial(self, case, obs):
        if case.get("kind") == "multi-setter":
            return False
        return super().nontrivial(case, obs["outs"])


CHECK = C13
