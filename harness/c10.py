"""C10 — observers see every dispatch once, in order, after it took effect."""
from . import gen, session
from .framework import Failure
from .sessioncheck import SessionCheck

SINGLETON = {0: True, 1: True, 2: True, 3: True, 4: True, 5: False, 6: False, 7: False, 8: True}


class C10(SessionCheck):
    pid = "C10"
    inst_kwargs = dict(allow_empty_jobs=True)
    gen_kwargs = dict(p_invalid=0.1, p_query=0.1, p_reset=0.05, p_snapshot=1.0, p_obs=0.25,
                      start_observers_choices=[0, 1, 2, 3, 4, 5, 5, 6, 6, 7, 8], max_events=70, p_cog=0.45,
                      obs_kinds=(0, 1, 2, 3, 4, 5, 5, 6, 6, 6, 7, 7, 8), p_leave=0.06)
    assumptions = ["valid instance: durations >= 0",
                   "observer objects are identified by creation order; a custom recording observer class (harness side) "
                   "records what the dispatcher shows at the moment of each notification"]
    modelled_not_verified = [
        "modelled: Dispatcher.subscribe/unsubscribe/create_or_get_observer/reset/dispatch notification loops, "
        "DispatcherObserver.__init__ singleton guard, HistoryObserver (coq/model/World.v, Observers.v)",
        "the call ORDER within one notification loop is compared through a harness-side wrapper around each observer "
        "object's update/reset (no change to /repo)"]

    def model_requests(self, case, obs):
        evs, outs = session.expand_run(case["events"], obs)
        return super().model_requests(dict(case, events=evs), outs)

    def make_case(self, rng):
        case, stats = super().make_case(rng)
        evs = case["events"]
        k = 0
        while k < len(evs) and evs[k][0] == 3:
            k += 1
        if "env" not in case and rng.random() < 0.15 and all(case["spec"]) and not any(
                ev[0] in (3, 6) and ev[1] == 6 for ev in evs):
            # counted library feature observers (with a composite) watch the session from outside the model world
            evs.insert(k, [13])
            stats["counted_library_observers"] = 1
        return case, stats

    def extra_requests(self, case, obs):
        # spec values of the queries a recording observer makes inside update(): on the post-dispatch rows
        items = []
        for i, (ev, o) in enumerate(zip(case["events"], obs)):
            if ev[0] == 0 and o and o[0] == 0 and i + 1 < len(obs) and case["events"][i + 1][0] == 7:
                rows = obs[i + 1][0][3]
                for q in (4, 0, 3, 1):
                    items.append([rows, q, []])
        return [(4, [case["spec"], case["filters"], items])]

    def judge(self, case, obs, outs):
        model_out, _cl, specq = outs
        # (event 12 = a dispatch during which a recording observer unsubscribes itself is judged as what it must be
        # equivalent to: the dispatch, then the unsubscription)
        evs, obs = session.expand_run(case["events"], obs)
        case = dict(case, events=evs)
        counted = [o[7] for ev, o in zip(evs, obs) if ev[0] == 7 and len(o) > 7 and o[7]]
        early = []
        if counted:
            name, which, n = counted[-1][0]
            early.append(Failure("oracle", "library-observer-notified-once",
                                 f"a library feature observer ({name}) subscribed to the dispatcher had its {which}() "
                                 f"called {n} times for one accepted {'dispatch' if which == 'update' else 'reset'}",
                                 observed=counted[-1]))
        fails = self.tie_failures(case, obs, model_out) + early
        subs = []          # tracked from the implementation's own answers
        kinds = []
        loglen = {}        # idx -> number of log entries seen at the last snapshot
        hist_ok = {}       # idx -> accepted sops since (re)start, or None when not comparable
        accepted = []
        k4 = 0
        for i, (ev, o) in enumerate(zip(evs, obs)):
            t = ev[0]
            ok = bool(o) and o[0] == 0
            if t == 3:
                k = ev[1]
                must_fail = SINGLETON[k] and any(gen.is_instance(k, kinds[s]) for s in subs if s < len(kinds))
                if must_fail and ok:
                    fails.append(Failure("oracle", "singleton", f"event #{i}: a second singleton observer of kind {k} "
                                         f"was subscribed"))
                if not must_fail and not ok:
                    fails.append(Failure("oracle", "singleton", f"event #{i}: constructing an observer of kind {k} "
                                         f"raised although none of its type is subscribed"))
                if ok:
                    kinds.append(k)
                    if not (len(ev) > 2 and ev[2] == 1):
                        subs.append(o[1])
                    if k == 0:
                        hist_ok[o[1]] = [] if (not accepted and not (len(ev) > 2 and ev[2] == 1)) else None
            elif t == 6:
                k = ev[1]
                allowed = set(ev[2][0]) if len(ev) > 2 and ev[2] else None
                cands = [s for s in subs if s < len(kinds) and gen.is_instance(k, kinds[s])
                         and (allowed is None or s in allowed)]
                if ok:
                    if cands:
                        if o[1] != cands[0]:
                            fails.append(Failure("oracle", "create-or-get",
                                                 f"event #{i}: create_or_get returned object {o[1]}, the first "
                                                 f"subscribed match is {cands[0]}", expected=cands[0], observed=o[1]))
                    else:
                        if o[1] != len(kinds):
                            fails.append(Failure("oracle", "create-or-get",
                                                 f"event #{i}: no subscribed observer matches, yet an existing object "
                                                 f"({o[1]}) was returned"))
                        else:
                            kinds.append(k)
                            subs.append(o[1])
                            if k == 0:
                                hist_ok[o[1]] = [] if not accepted else None
                elif cands:
                    fails.append(Failure("oracle", "create-or-get", f"event #{i}: raised although object {cands[0]} matches"))
                elif SINGLETON[k] and any(gen.is_instance(k, kinds[s]) for s in subs if s < len(kinds)):
                    pass    # a singleton of the class is subscribed but excluded by the condition: constructor refuses
            elif t == 4 and ok:
                if ev[1] in subs:
                    subs.remove(ev[1])
                hist_ok[ev[1]] = None
            elif t == 5 and ok:
                subs.append(ev[1])
                hist_ok[ev[1]] = None
            elif t in (0, 2):
                if ok:
                    if o[1] != subs:
                        fails.append(Failure("oracle", "notified-once-in-order",
                                             f"event #{i} ({'dispatch' if t == 0 else 'reset'}): notified {o[1]}, "
                                             f"subscribers in order are {subs}", expected=list(subs), observed=o[1]))
                    if t == 2:
                        accepted = []
                        for h in hist_ok:
                            hist_ok[h] = [] if subs.count(h) == 1 else None
                elif len(o) > 1:
                    fails.append(Failure("oracle", "rejected-notifies-nobody", f"event #{i}: observers were notified "
                                         f"although the request raised"))
                if t == 0 and ok and i + 1 < len(obs) and evs[i + 1][0] == 7:
                    snap = obs[i + 1]
                    prev = None
                    for j in range(i - 1, -1, -1):
                        if evs[j][0] == 7:
                            prev = obs[j]
                            break
                        if evs[j][0] in (0, 2, 8) and obs[j] and obs[j][0] == 0:
                            break   # the state changed since the last snapshot: the new entry cannot be read off
                    new = None
                    if prev is not None:
                        for rb, ra in zip(prev[0][3], snap[0][3]):
                            if len(ra) == len(rb) + 1:
                                new = ra[-1]
                    if new is not None:
                        accepted.append(new)
                        for h in hist_ok:
                            if hist_ok[h] is not None and subs.count(h) == 1:
                                hist_ok[h] = hist_ok[h] + [new]
                            else:
                                hist_ok[h] = None
                    else:
                        # what was scheduled is not known from the snapshots: nothing to compare histories with
                        # until the next reset
                        accepted.append(None)
                        for h in hist_ok:
                            hist_ok[h] = None
                    want_q = specq[k4:k4 + 4]
                    k4 += 4
                    # post-state seen by recording observers
                    for idx, ob in enumerate(snap[5]):
                        if ob[0] == 4 and idx in subs and ob[2]:
                            ent = ob[2][-1]
                            exp = [0, [new] if new is not None else ent[1], snap[0], snap[2],
                                   want_q[0][1], want_q[1][1], want_q[2][1], want_q[3][1]]
                            if ent != exp:
                                fails.append(Failure("oracle", "post-state",
                                                     f"event #{i}: recording observer {idx} was notified with a state "
                                                     f"that is not the state after the dispatch took effect",
                                                     expected=exp, observed=ent))
                elif t == 0 and ok:
                    # sparsely observed session: this dispatch is not followed by a snapshot
                    accepted.append(None)
                    for h in hist_ok:
                        hist_ok[h] = None
            elif t == 7:
                if o[4] != subs:
                    fails.append(Failure("oracle", "subscriber-list",
                                         f"snapshot #{i}: dispatcher.subscribers={o[4]}, expected {subs}",
                                         expected=list(subs), observed=o[4]))
                for idx, ob in enumerate(o[5]):
                    if ob[0] == 0 and hist_ok.get(idx) is not None and subs.count(idx) == 1:
                        if ob[1] != hist_ok[idx]:
                            fails.append(Failure("oracle", "history",
                                                 f"snapshot #{i}: HistoryObserver {idx} != accepted dispatch sequence",
                                                 expected=hist_ok[idx], observed=ob[1]))
        return fails

    def nontrivial(self, case, obs):
        nobs = sum(1 for ev in case["events"] if ev[0] in (3, 6))
        return nobs >= 2 and super().nontrivial(case, obs)

    nontrivial_rule = ("event scripts with observer construction / create-or-get (with and without condition) / "
                       "unsubscribe / re-subscribe events; non-trivial = >= 2 observer constructions, >= 2 jobs, >= 2 "
                       "accepted dispatches; distinct = SHA1 of the case")


CHECK = C10
