"""C06 — time only moves forward."""
from . import common, gen
from .framework import Failure
from .sessioncheck import SessionCheck


class C06(SessionCheck):
    pid = "C06"
    exhaustive_filters = ([],)   # the stream has zero durations: filters are outside the property there
    assumptions = ["no filter: durations >= 0 (zero included); with filters: positive durations (the property's own scope)",
                   "every operation has an eligible machine"]
    modelled_not_verified = [
        "modelled: Dispatcher.current_time / min_start_time / available_operations / completed_operations / "
        "ongoing_operations and the four filters (coq/model/World.v, Filters.v)"]

    MODELLED_FILTERS = ("dominated_operations", "non_immediate_machines", "non_idle_machines",
                        "non_immediate_operations")

    def gen_cases(self, rng, n):
        cases = super().gen_cases(rng, n)
        # "any composition of built-in filters": the four filters of the model, and whatever else the library's
        # ReadyOperationsFilterType enumerates (nothing today). Members the model does not know are judged by the
        # clauses themselves on the real dispatcher (no tie): a few positive-duration instances per run.
        for _ in range(4):
            spec = common.gen_instance(rng, max_jobs=4, max_machines=3, max_ops=3, zero=False)
            cases.append({"kind": "extra", "spec": spec, "seed": rng.randrange(10 ** 6)})
        return cases

    def run_impl(self, case):
        if case.get("kind") != "extra":
            return super().run_impl(case)
        import random as _random

        common.import_impl()
        from job_shop_lib.dispatching import (Dispatcher, ReadyOperationsFilterType,
                                              ready_operations_filter_factory)

        extra = [t for t in ReadyOperationsFilterType if t.value not in self.MODELLED_FILTERS]
        problems = []
        for t in extra:
            inst = common.build_instance(case["spec"])
            df = Dispatcher(inst, ready_operations_filter=ready_operations_filter_factory(t))
            du = Dispatcher(inst)
            r = _random.Random(case["seed"])
            prev_now, prev_done = None, set()
            while not df.schedule.is_complete():
                avail = df.available_operations()
                raw = df.raw_ready_operations()
                if not avail or any(o not in raw for o in avail):
                    problems.append([t.value, "empty or not a sub-list of the ready operations"])
                    break
                if df.current_time() != du.current_time():
                    problems.append([t.value, "filtered clock %s, unfiltered clock %s" % (df.current_time(),
                                                                                          du.current_time())])
                    break
                done = {(o.job_id, o.position_in_job) for o in df.completed_operations()}
                if (prev_now is not None and df.current_time() < prev_now) or not prev_done <= done:
                    problems.append([t.value, "clock went back or a completed operation disappeared"])
                    break
                prev_now, prev_done = df.current_time(), done
                op = r.choice(avail)
                m = r.choice(op.machines)
                df.dispatch(op, m)
                du.dispatch(op, m)
        return {"extra_filters": [t.value for t in extra], "problems": problems}

    def model_requests(self, case, obs):
        if case.get("kind") == "extra":
            return []
        return super().model_requests(case, obs)

    def nontrivial(self, case, obs):
        if case.get("kind") == "extra":
            return False
        return super().nontrivial(case, obs)

    def make_case(self, rng):
        filtered = rng.random() < 0.55
        spec = common.gen_instance(rng, allow_empty_jobs=not filtered, zero=False if filtered else None,
                                   big=rng.random() < 0.2, huge=rng.random() < 0.4, p_all_huge=0.3)
        fs = [rng.randrange(4) for _ in range(rng.randint(1, 3))] if filtered else []
        # a third of the sessions are made of several short episodes (the clock restarts at every reset: what
        # was computed in an earlier episode must not be served in a later one)
        episodic = rng.random() < 0.33
        events, stats = gen.gen_session(rng, spec, p_invalid=0.05, p_query=0.35,
                                        p_reset=0.18 if episodic else 0.04, p_snapshot=1.0,
                                        p_sub=0.45, max_events=80 if episodic else 60)
        if episodic:
            stats["episodic"] = 1
        out = []
        all_ops = [[j, p] for j, job in enumerate(spec) for p in range(len(job))]
        for ev in events:
            if ev[0] == 7 and out and out[-1][0] == 0 and rng.random() < 0.3:
                # a dispatching rule evaluated BEFORE anything else is asked in the new state
                out.append([9, rng.randrange(7)])
            if ev[0] == 7 and out and out[-1][0] in (0, 9) and all_ops and rng.random() < 0.4:
                # a look-ahead BEFORE anything else is asked in the new state
                out.append([1, 15, [list(rng.choice(all_ops)) for _ in range(rng.randint(1, 2))]])
            out.append(ev)
            if ev[0] == 7:
                qs = [[1, 0, []], [1, 7, []]]
                if rng.random() < 0.5:
                    qs.reverse()
                out.extend(qs)
        return {"spec": spec, "filters": fs, "events": out}, stats

    def extra_requests(self, case, obs):
        # the unfiltered clock on the same rows (spec), for "filtering never changes the current time"
        rows = self.rows_before(case, obs)
        items = [[rows[i], 0, []] for i, ev in enumerate(case["events"])
                 if ev[0] == 1 and ev[1] == 0 and rows[i] is not None]
        la = [[rows[i], 15, ev[2]] for i, ev in enumerate(case["events"])
              if ev[0] == 1 and ev[1] == 15 and rows[i] is not None]
        return [(4, [case["spec"], [], items]), (4, [case["spec"], case["filters"], items]),
                (4, [case["spec"], case["filters"], la])]

    def judge(self, case, obs, outs):
        if case.get("kind") == "extra":
            self.note("builtin_filters_beyond_the_four_modelled", len(obs["extra_filters"]))
            return [Failure("oracle", "unmodelled-builtin-filter:" + name,
                            f"the library's built-in filter '{name}' (not one of the four the model knows): {what}")
                    for name, what in obs["problems"]]
        model_out, _cl, unfiltered, own, lookahead = outs
        kl = 0
        fails = self.tie_failures(case, obs, model_out)
        evs = case["events"]
        rows = self.rows_before(case, obs)
        total = sum(len(j) for j in case["spec"])
        prev_now = None
        prev_done = None
        k = 0
        for i, (ev, o) in enumerate(zip(evs, obs)):
            if ev[0] == 2 and o and o[0] == 0:
                prev_now, prev_done = None, None
            if ev[0] == 1 and ev[1] == 15 and rows[i] is not None:
                want15 = lookahead[kl]
                kl += 1
                if o != want15:
                    fails.append(Failure("oracle", "min-start-time",
                                         f"event #{i}: min_start_time({ev[2]}) differs from the recomputation on the "
                                         f"schedule rows", expected=want15, observed=o))
            if ev[0] != 1 or rows[i] is None or not o or o[0] != 0:
                continue
            if ev[1] == 0:
                now = o[1]
                want = unfiltered[k]
                mine = own[k]
                k += 1
                if mine and mine[0] == 0 and mine[1] != now:
                    fails.append(Failure("oracle", "clock-value",
                                         f"event #{i}: current_time() = {now}, the earliest start time of the available "
                                         f"operations recomputed from the schedule rows is {mine[1]}",
                                         expected=mine[1], observed=now))
                if prev_now is not None and now < prev_now:
                    fails.append(Failure("oracle", "clock-went-back",
                                         f"event #{i}: current_time() = {now} after it was {prev_now}",
                                         expected=f">= {prev_now}", observed=now))
                prev_now = now
                if case["filters"] and want and want[0] == 0 and want[1] != now:
                    fails.append(Failure("oracle", "filter-moved-clock",
                                         f"event #{i}: current_time() with filters {case['filters']} is {now}, "
                                         f"without filters it is {want[1]}", expected=want[1], observed=now))
                n = sum(len(r) for r in rows[i])
                if n == total:
                    mk = max([x[2] + case["spec"][x[0]][x[1]][1] for r in rows[i] for x in r] + [0])
                    if now != mk:
                        fails.append(Failure("oracle", "now-at-completion",
                                             f"event #{i}: schedule complete, current_time() = {now}, makespan = {mk}"))
            elif ev[1] == 7:
                done = {tuple(x) for x in o[1]}
                if prev_done is not None and not prev_done <= done:
                    fails.append(Failure("oracle", "completed-shrank",
                                         f"event #{i}: completed operations lost {sorted(prev_done - done)}",
                                         expected=sorted(prev_done), observed=sorted(done)))
                prev_done = done
        return fails

    nontrivial_rule = ("event scripts asking current_time() and completed_operations() after every dispatch (random "
                       "order, other queries incl. min_start_time on sub-lists in between); 55% with random filter "
                       "compositions on positive-duration instances, 45% unfiltered with zero durations allowed; "
                       "non-trivial = >= 2 jobs and >= 2 accepted dispatches; distinct = SHA1 of the case")


CHECK = C06
