"""C12 — reset makes everything indistinguishable from new.

A case is: an instance, a filter configuration, a CREATION SCRIPT (which observers are constructed, in which
order, through which constructor path), a first history h1 (partial or complete), a reset, a second history h2.
World A runs all of it; world B (the twin) is freshly constructed with the same creation script and runs only
h2. After the reset and after every dispatch of h2 the publicly visible state of dispatcher, every subscribed
observer and (in env mode) the environment's returns must coincide (the model-free ORACLE).

TIE (non-env cases): the same creation script + episodes + reset + h2 is translated into the model sessions the
theorems of coq/properties/C12b.v are about, and world A is compared with the model after the creation script, after
every reset and after EVERY dispatch of h2:
  * feature observers (command 1201, coq/model/CmdC12.v = CmdC11's session of FeatureObservers.v plus one event for
    the IsCompletedObserver a ResidualGraphUpdater creates-or-gets): the constructor steps `feat`, `unsched`,
    `composite`, `rgu`; compared: the whole system of feature-class subscribers in subscription order, dependencies
    created by constructors included (every feature vector, earliest_start_times, remaining_ops_per_*, deques,
    composite matrices, components and column names) and the schedule rows;
  * residual graph updater (command 1202 = CmdC17's updater session of Residual.v, on a graph that may have lost
    nodes before the updater got it): the dependency-relevant observers created before it (`unsched`,
    RemainingOperations, IsCompleted) as `pre`, its options and builder, compared: removed_nodes, the edge set, flags
    and counters of its IsCompletedObserver.
History / reward observers are not part of those model worlds (their reset theorem is C12.v's; they do not interact
with the others) and are judged by the oracle only; environment cases are oracle-only (`tie_skipped_env`)."""
from __future__ import annotations

import json

from . import c11, c17, common, gen, session
from .framework import Check, Failure

FEATURE_TYPES = ["is_ready", "earliest_start_time", "duration", "is_scheduled", "position_in_job",
                 "remaining_operations", "is_completed"]
# feature-type subsets each observer supports: 0 operations, 1 machines, 2 jobs
SUPPORTED = {0: [0, 1, 2], 1: [0, 1, 2], 2: [0, 1, 2], 3: [0, 1], 4: [0], 5: [1, 2], 6: [0, 1, 2]}
FT_NAMES = ["operations", "machines", "jobs"]


def creation_script(rng, allow_est):
    """list of constructor steps, in creation order"""
    steps = []
    kinds = rng.sample(range(7), rng.randint(1, 5))
    if not allow_est:
        kinds = [k for k in kinds if k != 1] or [0]
    for k in kinds:
        fts = [f for f in SUPPORTED[k] if rng.random() < 0.75] or [rng.choice(SUPPORTED[k])]
        steps.append(["feat", k, sorted(fts)])
    if rng.random() < 0.5:
        steps.append(["unsched"])
    if rng.random() < 0.4:
        steps.append(["hist"])
    if rng.random() < 0.4:
        steps.append(["mk"])
    if rng.random() < 0.3:
        steps.append(["idle"])
    if rng.random() < 0.55:
        st = ["rgu", rng.randrange(4) if rng.random() < 0.85 else rng.choice([4, 5, 6, 6]),
              int(rng.random() < 0.8), int(rng.random() < 0.8)]
        if rng.random() < 0.25:
            # the updater is handed a graph that already lost some nodes (legal: remove_node is public API);
            # entries are reduced modulo the number of nodes
            st.append([rng.randrange(1000) for _ in range(rng.randint(1, 2))])
        steps.append(st)
    if rng.random() < 0.12:
        steps.append(["cgu"])
    rng.shuffle(steps)
    if rng.random() < 0.4:
        comp = [i for i, s in enumerate(steps) if s[0] == "feat"]
        if comp:
            steps.append(["composite", comp])
    return steps


class World:
    def __init__(self, spec, filters, steps, env_cfg):
        common.import_impl()
        from job_shop_lib.dispatching import Dispatcher

        self.instance = common.build_instance(spec)
        self.env = None
        self.objs = []
        if env_cfg is not None:
            self.env = session.make_env(self.instance, filters, env_cfg)
            self.dispatcher = self.env.dispatcher
            return
        self.dispatcher = Dispatcher(self.instance, ready_operations_filter=session.make_filter(filters))
        self.build(steps)

    def build(self, steps):
        from job_shop_lib import graphs
        from job_shop_lib.dispatching import HistoryObserver, UnscheduledOperationsObserver
        from job_shop_lib.dispatching.feature_observers import (CompositeFeatureObserver, FeatureType,
                                                                  feature_observer_factory)
        from job_shop_lib.graphs.graph_updaters import ResidualGraphUpdater
        from job_shop_lib.reinforcement_learning import IdleTimeReward, MakespanReward

        d = self.dispatcher
        fts = [FeatureType.OPERATIONS, FeatureType.MACHINES, FeatureType.JOBS]
        self.nfeat_before = []      # feature-class subscribers that exist before each step (for the tie)
        fclasses = c11._classes()   # pylint: disable=protected-access
        for st in steps:
            self.nfeat_before.append(sum(1 for x in d.subscribers if type(x) in fclasses))
            if st[0] == "feat":
                o = feature_observer_factory(FEATURE_TYPES[st[1]], dispatcher=d, feature_types=[fts[i] for i in st[2]])
            elif st[0] == "unsched":
                o = d.create_or_get_observer(UnscheduledOperationsObserver)
            elif st[0] == "hist":
                o = HistoryObserver(d)
            elif st[0] == "mk":
                o = MakespanReward(d)
            elif st[0] == "idle":
                o = IdleTimeReward(d)
            elif st[0] == "rgu":
                g = build_graph(self.instance, st[1], seed=len(steps))
                self.pre_removed = []
                for r in (st[4] if len(st) > 4 else []):
                    nid = r % len(g.nodes)
                    self.pre_removed.append(nid)
                    if not g.is_removed(nid):
                        g.remove_node(nid)
                o = ResidualGraphUpdater(d, g, remove_completed_machine_nodes=bool(st[2]),
                                         remove_completed_job_nodes=bool(st[3]))
            elif st[0] == "cgu":
                # a USER-WRITTEN graph updater (the documented extension point: subclass GraphUpdater, implement
                # update): it adds the machine-order arc of every dispatched operation and removes nothing
                from job_shop_lib.graphs.graph_updaters import GraphUpdater
                from job_shop_lib.graphs import EdgeType

                class MachineOrderUpdater(GraphUpdater):
                    def update(self, scheduled_operation):
                        row = self.dispatcher.schedule.schedule[scheduled_operation.machine_id]
                        if len(row) >= 2:
                            self.job_shop_graph.add_edge(row[-2].operation.operation_id,
                                                         row[-1].operation.operation_id,
                                                         type=EdgeType.DISJUNCTIVE)

                o = MachineOrderUpdater(d, graphs.JobShopGraph(self.instance))
            elif st[0] == "composite":
                o = CompositeFeatureObserver(d, feature_observers=[self.objs[i] for i in st[1]])
            else:
                raise ValueError(st)
            self.objs.append(o)

    def state(self):
        return session.deep_state(self)

    def try_rejected(self, variant):
        """an observer construction that the library rejects (unsupported feature type -> ValidationError): it must
        leave no trace, in this episode or after the next reset"""
        from job_shop_lib.exceptions import ValidationError
        from job_shop_lib.dispatching.feature_observers import (FeatureType, PositionInJobObserver,
                                                                RemainingOperationsObserver)
        cls, fts = [(PositionInJobObserver, [FeatureType.JOBS]),
                    (PositionInJobObserver, [FeatureType.OPERATIONS, FeatureType.MACHINES]),
                    (RemainingOperationsObserver, [FeatureType.OPERATIONS]),
                    (RemainingOperationsObserver, [FeatureType.JOBS, FeatureType.OPERATIONS])][variant % 4]
        try:
            cls(self.dispatcher, feature_types=fts)
        except ValidationError:
            return
        raise RuntimeError("the constructor accepted an unsupported feature type")

    def do(self, j, p, m):
        d = self.dispatcher
        if self.env is not None:
            out = self.env.step((j, m))
            enc = [session._jsonable(out[0]), float(out[1]), bool(out[2]), bool(out[3])]
            scribble(out[0])
            return enc
        d.dispatch(self.instance.jobs[j][p], m)
        return None

    def reset(self):
        if self.env is not None:
            out = self.env.reset()
            enc = session._jsonable(out[0])
            scribble(out[0])
            return enc
        self.dispatcher.reset()
        return None


def scribble(observation):
    """What a consumer may do with an observation it was handed: normalise the arrays in place, add a key.
    Later observations must not show any of it."""
    import numpy as np

    if isinstance(observation, dict):
        for v in list(observation.values()):
            if isinstance(v, np.ndarray) and v.size:
                v[...] = 77
        observation["scribbled_by_the_caller"] = 1


def run_history(world, hist, reject=None, late=None):
    """reject = [position, variant]: a rejected observer construction attempted before that dispatch (or at the
    end of the history when position == len(hist)); late = [position, steps]: observers constructed at that
    point of the history (mid-episode) instead of on the fresh dispatcher"""
    outs = []
    for i, (j, p, m) in enumerate(hist):
        if reject and reject[0] == i:
            world.try_rejected(reject[1])
        if late and late[0] == i:
            world.build(late[1])
        r = world.do(j, p, m)
        outs.append([r, world.state()])
    if reject and reject[0] >= len(hist):
        world.try_rejected(reject[1])
    if late and late[0] >= len(hist):
        world.build(late[1])
    return outs


FEATISH = ("feat", "unsched", "composite", "rgu")


def tie_plan(steps):
    """(index of the updater step or None, number of leading steps the feature session covers: all of them)"""
    rgu_at = next((i for i, st in enumerate(steps) if st[0] == "rgu"), None)
    if sum(1 for st in steps if st[0] == "rgu") > 1:
        return rgu_at, rgu_at + 1        # command 1701 models ONE updater: later steps are outside both sessions
    return rgu_at, len(steps)


def updater_tied(steps):
    """index of the updater step the updater session (command 1202) models: the first one, when its graph comes
    from one of the four built-in builders (custom graphs have no model: twin oracle only)"""
    rgu_at, _ = tie_plan(steps)
    return rgu_at if rgu_at is not None and (steps[rgu_at][1] < 4 or RECIPE_TIE) else None


RECIPE_TIE = True


def graph_recipe(spec, code, seed):
    """the custom graphs of build_graph as recipes of public building blocks (coq/model/CmdC16.v)"""
    if code in (4, 5):
        return c17.custom_recipe(common.num_machines_of(spec), len(spec), code == 5, seed)
    return [[1], [3]]


def build_graph(instance, code, seed=0):
    """0-3: the built-in builders (session.GRAPH_BUILDERS); 4, 5: agent-task family assembled from the public
    building blocks with shuffled machine / job nodes (c17.build_custom); 6: operation nodes with the conjunctive
    edges only (a job with a single operation is an isolated node)"""
    from job_shop_lib import graphs

    if code < 4:
        return getattr(graphs, session.GRAPH_BUILDERS[code])(instance)
    spec = common.spec_of_instance(instance)
    return c17.build_from_recipe(instance, graph_recipe(spec, code, seed))


class TieView:
    """What the model sessions show, read off world A with the encoders of harness/c11.py and c17.py."""

    def __init__(self, world, steps):
        from job_shop_lib.dispatching.feature_observers import FeatureType

        self.world = world
        self.dispatcher = world.dispatcher
        self.classes = c11._classes()   # pylint: disable=protected-access
        self.fts = [FeatureType.OPERATIONS, FeatureType.MACHINES, FeatureType.JOBS]
        self.objs = []
        _, upto = tie_plan(steps)
        rgu_at = updater_tied(steps)
        self.updater = world.objs[rgu_at] if rgu_at is not None else None
        self.refresh()
        # feature-class subscribers created by the covered steps (in subscription = creation order)
        self.nfeat = world.nfeat_before[upto] if upto < len(steps) else len(self.objs)
        # creation-step index -> index in that list (the model's object index)
        self.fmap = {i: self.index_of(world.objs[i]) for i, st in enumerate(steps[:upto]) if st[0] == "feat"}

    index_of = c11.Impl.index_of
    enc_obj = c11.Impl.enc_obj

    def refresh(self):
        self.objs = [x for x in self.dispatcher.subscribers if type(x) in self.classes]

    def snap(self):
        self.refresh()
        d = self.dispatcher
        out = {"f": [self.enc_obj(o) for o in self.objs[:self.nfeat]],
               "rows": [[session.enc_sop(x) for x in row] for row in d.schedule.schedule]}
        if self.updater is not None:
            out["u"] = c17.enc_state(self.updater)[:3]
        return {k: common.norm(v) for k, v in out.items()}


def feature_events(steps, fmap):
    """the creation steps as events of the feature session (command 1201)"""
    _, upto = tie_plan(steps)
    evs = []
    for i, st in enumerate(steps[:upto]):
        if st[0] == "feat":
            evs.append([2, st[1], [int(t in st[2]) for t in range(3)], []])
        elif st[0] == "unsched":
            evs.append([2, 8, [1, 1, 1], []])     # create-or-get: a second one is refused by the model, no change
        elif st[0] == "composite":
            evs.append([2, 7, [1, 1, 1], [[fmap[str(c)] for c in st[1]]]])
        elif st[0] == "rgu":
            evs.append([4, st[2], st[3]])         # the IsCompletedObserver the updater creates or gets
    return evs


def updater_pre(steps):
    """the dependency-relevant observers created before the updater, in command 1701's `pre` format"""
    rgu_at, _ = tie_plan(steps)
    pre = []
    for st in steps[:rgu_at]:
        if st[0] == "unsched":
            pre.append([0])
        elif st[0] == "feat" and st[1] == 5:
            pre.append([1, int(1 in st[2]), int(2 in st[2])])
        elif st[0] == "feat" and st[1] == 6:
            pre.append([2, int(0 in st[2]), int(1 in st[2]), int(2 in st[2])])
    return pre


def sparse_states(world, case):
    """h2 on `world`, looking at it only after as many dispatches as the last episode before the reset had (if h2
    is that long) and at the end: observations made by the harness itself must not be what keeps things fresh"""
    k = len(case["h1"][-1]) if case["h1"] else -1
    outs = []
    for i, (j, p, m) in enumerate(case["h2"], 1):
        world.do(j, p, m)
        if i in (k, len(case["h2"])):
            outs.append(json.dumps(world.state(), sort_keys=True, default=str))
    return outs


def sparse_run(case):
    """second, sparsely observed pair of worlds (non-env cases): A' = creation script, every episode of h1 dispatched
    WITHOUT looking, one look at the end of the episode, reset; B' = fresh twin; both then run `sparse_states`"""
    a = World(case["spec"], case["filters"], case["steps"], None)
    for ep, h in enumerate(case["h1"]):
        rej = case.get("reject")
        for i, (j, p, m) in enumerate(h):
            if rej and rej[0] == ep and rej[1] == i:
                a.try_rejected(rej[2])
            a.do(j, p, m)
        if rej and rej[0] == ep and rej[1] >= len(h):
            a.try_rejected(rej[2])
        a.state()
        a.reset()
    b = World(case["spec"], case["filters"], case["steps"], None)
    return [sparse_states(a, case), sparse_states(b, case)]


def gen_history(rng, spec, complete_prob=0.5):
    tr = gen.Tracker(spec)
    total = sum(len(j) for j in spec)
    target = total if rng.random() < complete_prob else rng.randint(0, total)
    hist = []
    while len(hist) < target and not tr.done():
        j = rng.choice(tr.ready_jobs())
        p = tr.jnext[j]
        m = rng.choice(spec[j][p][0])
        tr.accept(j, m)
        hist.append([j, p, m])
    return hist


class C12(Check):
    pid = "C12"
    assumptions = ["valid instance, non-empty jobs (graph builders need them)",
                   "observers are constructed on the new dispatcher (before the first dispatch), nobody unsubscribes; a "
                   "composite's explicit components exist when it is constructed (hypothesis `scoped` of C12b.v)",
                   "observers are compared through their public attributes (features, rewards, history, deques, "
                   "graph removed-flags and edges, subscriber list) and the environment through reset()/step() returns"]
    modelled_not_verified = [
        "modelled (Coq) and tied by differential execution after the creation script, every reset and every dispatch "
        "of h2: Dispatcher.reset/dispatch, constructors (create-or-get dependencies included) / update / reset of the "
        "seven feature observers, CompositeFeatureObserver and UnscheduledOperationsObserver "
        "(coq/model/FeatureObservers.v, session command 1201 of CmdC12.v), ResidualGraphUpdater with the observers it "
        "depends on and GraphUpdater.reset's deep-copy restore (coq/model/Residual.v, Graph.v, command 1701), both "
        "with the initialisation as repaired by /repo commits 196fa58, b64948b, f806e65",
        "History / MakespanReward / IdleTimeReward observers: modelled in coq/model/Observers.v (theorems of C12.v); in "
        "this check they are judged by the model-free oracle only (they do not interact with the other observers)",
        "SingleJobShopGraphEnv.reset()/step(): not modelled for this property; environment cases are decided by the "
        "model-free oracle (state after reset + h2 versus a freshly constructed twin after h2, on the real objects)",
        "numpy / networkx / copy.deepcopy contracts as in C11 and C17 (validated by sampling only)"]
    nontrivial_rule = ("random creation scripts (1-5 feature observers with random feature types, unscheduled / history "
                       "/ reward observers, residual graph updater on a random builder, composite), random order; or a "
                       "SingleJobShopGraphEnv with random configuration; a quarter of the updaters get a graph with 1-2 "
                       "nodes already removed; h1 partial or complete, reset, h2; "
                       "non-trivial = h1 has >= 2 dispatches and h2 >= 1; distinct = SHA1 of the case")

    def budget(self):
        return 500 if self.tier == "quick" else 2500

    def search_budget(self):
        return 400 if self.tier == "quick" else 3000

    def gen_cases(self, rng, n):
        cases = []
        for _ in range(n):
            spec = common.gen_instance(rng, allow_empty_jobs=False, max_jobs=4, max_machines=3, max_ops=3)
            fs = [rng.randrange(4) for _ in range(rng.randint(1, 2))] if rng.random() < 0.4 else []
            env = None
            steps = []
            if rng.random() < 0.35:
                env = {"builder": rng.randrange(4), "features": sorted(rng.sample(range(6), rng.randint(1, 3))),
                       "idle": int(rng.random() < 0.3), "padding": int(rng.random() < 0.7)}
                self.note("env_cases")
            else:
                steps = creation_script(rng, allow_est=self.est_constructible(spec))
            n_ep = 1 if rng.random() < 0.7 else 2
            hs = [gen_history(rng, spec, 0.6) for _ in range(n_ep)]
            h2 = gen_history(rng, spec, 0.7)
            cases.append({"spec": spec, "filters": fs, "steps": steps, "env": env, "h1": hs, "h2": h2})
            if env is None and rng.random() < 0.08:
                # "f32" family: durations next to 2^24 (cumulative times are exact as ints / float64, not as float32).
                # The model's feature arrays are exact integers, so these cases are judged by the twin oracle alone:
                # the reset world and the freshly constructed twin round the same way or are not in the same state.
                spec = [[[ms, ((1 << 24) + rng.randint(-3, 3)) if rng.random() < 0.6 else rng.randint(1, 3)]
                         for ms, _ in job] for job in spec]
                cases[-1]["spec"] = spec
                cases[-1]["f32"] = 1
                self.note("f32_family_twin_oracle_only")
            if env is None and rng.random() < 0.15:
                ep = rng.randrange(n_ep)
                cases[-1]["reject"] = [ep, rng.randint(0, len(hs[ep])), rng.randrange(4)]
                self.note("rejected_observer_construction_before_the_reset")
            if env is None and "reject" not in cases[-1] and rng.random() < 0.25:
                # some observers are constructed in the middle of an episode (attached to a dispatcher with a
                # past); after the reset they, too, must be what they are when constructed on a fresh dispatcher
                if rng.random() < 0.5:
                    # nothing on the fresh dispatcher brings an UnscheduledOperationsObserver along (remaining-
                    # operations / is-completed observers and the residual updater create-or-get one), so that the
                    # one constructed mid-episode really is constructed on a dispatcher with a past
                    steps = [st for st in steps if st[0] in ("hist", "mk", "idle", "cgu")
                             or (st[0] == "feat" and st[1] not in (5, 6))]
                    cases[-1]["steps"] = steps
                have = {st[0] for st in steps}
                pool = [[k] for k in ("unsched", "hist", "mk", "idle") if k not in have]
                pool += [["feat", k, sorted(rng.sample(SUPPORTED[k], rng.randint(1, len(SUPPORTED[k]))))]
                         for k in (0, 2, 3, 4, 5, 6)]
                ep = rng.randrange(n_ep)
                chosen = rng.sample(pool, rng.randint(1, min(3, len(pool))))
                if "unsched" not in have and ["unsched"] not in chosen and rng.random() < 0.6:
                    chosen.insert(0, ["unsched"])
                cases[-1]["late"] = [ep, rng.randint(0, len(hs[ep])), chosen]
                self.note("observers_constructed_mid_episode_before_the_reset")
            self.note("cases")
            self.note("episodes_before", n_ep)
            for st in steps:
                self.note("step_" + st[0])
        return cases

    @staticmethod
    def est_constructible(spec):
        # the earliest-start observer's constructor raises on regular instances with ragged per-machine counts
        # (property C11's business); keep it out of C12's creation scripts when it cannot be built
        lens = {len(j) for j in spec}
        if len(lens) != 1 or any(len(o[0]) != 1 for j in spec for o in j):
            return True
        cnt = {}
        for j in spec:
            for o in j:
                cnt[o[0][0]] = cnt.get(o[0][0], 0) + 1
        return len(set(cnt.values())) <= 1

    def run_impl(self, case):
        try:
            a = World(case["spec"], case["filters"], case["steps"], case["env"])
        except ValueError as e:
            if "inhomogeneous" in str(e) or "setting an array element" in str(e):
                # EarliestStartTimeObserver cannot be built for this instance: property C11's finding, not C12's
                return {"skipped": "earliest-start observer not constructible"}
            raise
        late = case.get("late")
        # (observers constructed mid-episode: the model sessions construct on the fresh dispatcher only, so these
        # cases are judged by the twin oracle alone)
        view = TieView(a, case["steps"]) if case["env"] is None and not late and not case.get("f32") else None
        snaps = [view.snap()] if view else []          # after the creation script
        for ep, h in enumerate(case["h1"]):
            rej = case.get("reject")
            run_history(a, h, rej[1:] if rej and rej[0] == ep else None,
                        late[1:] if late and late[0] == ep else None)
            ra = a.reset()
            if view:
                snaps.append(view.snap())               # after every reset
        sa0 = a.state()
        b = World(case["spec"], case["filters"], case["steps"], case["env"])
        if late:
            b.build(late[2])        # the twin constructs them on the fresh dispatcher, after the others
        rb = b.reset() if case["env"] is not None else None
        sb0 = b.state()
        if case["env"] is None:
            ra = None
        outs_a = []
        for j, p, m in case["h2"]:
            r = a.do(j, p, m)
            outs_a.append([r, a.state()])
            if view:
                snaps.append(view.snap())               # after every dispatch of h2
        outs_b = run_history(b, case["h2"])
        obs = {"reset_obs": [json.dumps(ra, sort_keys=True), json.dumps(rb, sort_keys=True)],
               "s0": [json.dumps(sa0, sort_keys=True, default=str), json.dumps(sb0, sort_keys=True, default=str)],
               "steps": [[json.dumps(x, sort_keys=True, default=str), json.dumps(y, sort_keys=True, default=str)]
                         for x, y in zip(outs_a, outs_b)]}
        if view:
            obs["tie"] = {"snaps": snaps, "nfeat": view.nfeat, "fmap": {str(k): v for k, v in view.fmap.items()},
                          "pre_removed": getattr(a, "pre_removed", [])}
            obs["sparse"] = sparse_run(case)
        return obs

    @staticmethod
    def session_events(case):
        """dispatches and resets of the case in the order they happen, and the indices (into that list) after
        which world A was snapshot: every reset, every dispatch of h2"""
        evs, marks = [], []
        for h in case["h1"]:
            evs += [[0, j, p, m] for j, p, m in h]
            evs.append([1])
            marks.append(len(evs) - 1)
        for j, p, m in case["h2"]:
            evs.append([0, j, p, m])
            marks.append(len(evs) - 1)
        return evs, marks

    def model_requests(self, case, obs):
        if "skipped" in obs or "tie" not in obs:
            return []
        tie = obs["tie"]
        steps = case["steps"]
        rgu_at = updater_tied(steps)
        evs, _ = self.session_events(case)
        reqs = []
        if tie["nfeat"] > 0:
            cre = feature_events(steps, tie["fmap"])
            reqs.append((1201, [case["spec"], case["filters"],
                                cre + [[0, e[1], e[2], [e[3]]] if e[0] == 0 else [1] for e in evs]]))
        if rgu_at is not None:
            st = steps[rgu_at]
            if st[1] < 4:
                reqs.append((1202, [case["spec"], case["filters"], c17.ENV_BUILDER[st[1]], updater_pre(steps),
                                    st[2], st[3], evs, tie["pre_removed"]]))
            else:
                reqs.append((1203, [case["spec"], case["filters"], graph_recipe(case["spec"], st[1], len(steps)),
                                    updater_pre(steps), st[2], st[3], evs, tie["pre_removed"]]))
        return reqs

    def judge_tie(self, case, obs, outs):
        fails = []
        tie = obs["tie"]
        steps = case["steps"]
        _, upto = tie_plan(steps)
        rgu_at = updater_tied(steps)
        if rgu_at is None and tie_plan(steps)[0] is not None:
            self.note("updater_on_custom_graph_oracle_only")
        evs, marks = self.session_events(case)
        snaps = tie["snaps"]
        outs = list(outs)
        labels = ["after the creation script"] + [
            ("after the reset" if evs[k] == [1] else f"after dispatch {evs[k][1:]} of h2") + f" (event #{k})"
            for k in marks]
        if any(st[0] in FEATISH for st in steps[upto:]):
            self.note("tie_skipped")                      # a second updater: only the steps up to the first are tied
        if tie["nfeat"] > 0:
            self.note("tie_features")
            model = outs.pop(0)
            ncre = len(feature_events(steps, tie["fmap"]))
            for lab, snap, k in zip(labels, snaps, [ncre - 1] + [ncre + k for k in marks]):
                if k < 0 or k >= len(model):
                    fails.append(Failure("tie", "features:session-length", f"{lab}: the model session has no event {k}"))
                    break
                out, (msubs, mobjs), mrows = model[k]
                if k >= ncre and out[0] != 0:
                    fails.append(Failure("tie", "features:event-rejected", f"{lab}: the model rejected event {k}",
                                         observed=out))
                    break
                if msubs != list(range(len(mobjs))):
                    fails.append(Failure("tie", "features:subscription-order",
                                         f"{lab}: model subscribers {msubs} are not in creation order"))
                    break
                if snap["rows"] != mrows:
                    fails.append(Failure("tie", "features:rows", f"{lab}: schedule rows differ", expected=mrows,
                                         observed=snap["rows"]))
                    break
                if snap["f"] != mobjs:
                    detail = f"{lab}: feature observers differ between implementation and model"
                    if len(snap["f"]) != len(mobjs):
                        detail += f"; {len(snap['f'])} objects vs {len(mobjs)} in the model"
                    for i, (x, y) in enumerate(zip(snap["f"], mobjs)):
                        if x != y:
                            detail += f"; object {i} ({c11.KINDS[x[0]]}): impl {x[1:]} model {y[1:]}"
                            break
                    fails.append(Failure("tie", "features:impl-vs-model", detail))
                    break
        elif any(st[0] in ("feat", "unsched", "composite") for st in steps[:upto]):
            fails.append(Failure("tie", "features:none-subscribed", "feature constructor steps left no subscriber"))
        if rgu_at is not None:
            self.note("tie_updater")
            if tie["pre_removed"]:
                self.note("tie_updater_on_graph_with_removed_nodes")
            model = outs.pop(0)
            if model[0] != 1:
                return fails + [Failure("tie", "updater:builder-raises", "the model's builder raised")]
            _, m0, msteps = model
            for lab, snap, k in zip(labels, snaps, [-1] + marks):
                if k >= len(msteps):
                    fails.append(Failure("tie", "updater:session-length", f"{lab}: the model session has no event {k}"))
                    break
                mstate = m0 if k < 0 else msteps[k][1]
                if k >= 0 and msteps[k][0] == 0:
                    fails.append(Failure("tie", "updater:event-rejected", f"{lab}: the model rejected event {k}"))
                    break
                for i, what in enumerate(("removed_nodes", "edges", "is-completed-observer")):
                    if snap["u"][i] != mstate[i]:
                        fails.append(Failure("tie", "updater:" + what, f"{lab}: {what} differ between implementation "
                                             f"and model", expected=mstate[i], observed=snap["u"][i]))
                        break
                else:
                    continue
                break
        if tie["nfeat"] == 0 and rgu_at is None:
            self.note("tie_nothing_to_tie")               # only history / reward observers (C12.v's theorem)
        return fails

    def judge(self, case, obs, outs):
        fails = []
        if "skipped" in obs:
            return fails
        if "tie" in obs:
            fails += self.judge_tie(case, obs, outs)
        else:
            self.note("tie_skipped_env" if case["env"] is not None else "tie_skipped_observers_created_mid_episode")
        if obs["reset_obs"][0] != obs["reset_obs"][1]:
            fails.append(Failure("oracle", "env-reset-observation",
                                 "env.reset() after an episode returns a different observation than env.reset() of a "
                                 "fresh environment", expected=diff(obs["reset_obs"][1], obs["reset_obs"][0])))
        if obs["s0"][0] != obs["s0"][1]:
            fails.append(Failure("oracle", "state-after-reset:" + where(obs["s0"][1], obs["s0"][0]),
                                 "after reset the visible state differs from freshly constructed objects",
                                 expected=diff(obs["s0"][1], obs["s0"][0])))
        for i, (x, y) in enumerate(obs["steps"]):
            if x != y:
                fails.append(Failure("oracle", "episode-after-reset:" + where(y, x),
                                     f"dispatch #{i} of the episode after the reset behaves differently than on fresh "
                                     f"objects", expected=diff(y, x)))
                break
        for x, y in zip(*obs.get("sparse", [[], []])):
            if x != y:
                fails.append(Failure("oracle", "sparsely-observed-episode:" + where(y, x),
                                     "an episode after the reset that is only looked at once or twice differs from "
                                     "the same episode on fresh objects", expected=diff(y, x)))
                break
        return fails

    def nontrivial(self, case, obs):
        if "skipped" in obs:
            return False
        return sum(len(h) for h in case["h1"]) >= 2 and len(case["h2"]) >= 1

    def shrink_candidates(self, case):
        if case.get("reject"):
            yield {k: v for k, v in case.items() if k != "reject"}
        late = case.get("late")
        if late and len(late[2]) > 1:
            for i in range(len(late[2])):
                yield dict(case, late=[late[0], late[1], late[2][:i] + late[2][i + 1:]])
        if len(case["h1"]) > 1 and not (late and late[0] >= 1) and not (case.get("reject") and case["reject"][0] >= 1):
            yield dict(case, h1=case["h1"][:1])
        if case["h2"]:
            yield dict(case, h2=case["h2"][:-1])
        for i in range(len(case["steps"]) - 1, -1, -1):
            st = case["steps"]
            if st[i][0] == "composite":
                yield dict(case, steps=st[:i] + st[i + 1:])
            elif not any(s[0] == "composite" for s in st):
                yield dict(case, steps=st[:i] + st[i + 1:])
        if case["filters"]:
            yield dict(case, filters=[])


def _paths(a, b, pre=""):
    if type(a) != type(b):
        yield pre
    elif isinstance(a, dict):
        for k in sorted(set(a) | set(b)):
            if k not in a or k not in b:
                yield pre + "/" + str(k)
            else:
                yield from _paths(a[k], b[k], pre + "/" + str(k))
    elif isinstance(a, list):
        if len(a) != len(b):
            yield pre + "[len]"
        else:
            for i, (x, y) in enumerate(zip(a, b)):
                yield from _paths(x, y, pre + f"[{i}]")
    elif a != b:
        yield pre


def where(fresh_json, got_json):
    """a short, stable name for the first differing component (observer class / field)"""
    a, b = json.loads(fresh_json), json.loads(got_json)
    for p in _paths(a, b):
        parts = [x for x in p.replace("[", "/").replace("]", "").split("/") if x]
        # state layout: [step-return, state] or state; observers: [[class, {field: ...}], ...]
        try:
            node = a
            name = []
            for x in parts:
                if x == "len" or (isinstance(node, list) and not x.isdigit()) or \
                        (isinstance(node, dict) and x not in node) or \
                        (isinstance(node, list) and int(x) >= len(node)):
                    break
                node = node[int(x)] if isinstance(node, list) else node[x]
                if isinstance(node, list) and len(node) == 2 and isinstance(node[0], str) and isinstance(node[1], dict):
                    name = [node[0]]
                elif not x.isdigit():
                    name.append(x)
            return ".".join(name[:3]) or "state"
        except Exception:  # pylint: disable=broad-except
            return "state"
    return "state"


def diff(fresh_json, got_json):
    a, b = json.loads(fresh_json), json.loads(got_json)
    out = []
    for p in _paths(a, b):
        out.append(p)
        if len(out) >= 6:
            break
    return {"differing_paths": out}


CHECK = C12
