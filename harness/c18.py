"""C18 — the environments honour the Gymnasium contract.

Three kinds of cases (plain JSON):

  {"kind": "single", "spec": I, "builder": b, "cfg": CFG, "episodes": [[[a, b], ...], ...]}
      a SingleJobShopGraphEnv on the graph of builder b; every episode is a
      reset followed by steps; pick [a, b] = a-th available operation (mod),
      machine b-th of its machines (mod), or -1 when b < 0 and the operation
      has a single machine.
  {"kind": "multi", "params": [jlo, jhi, mlo, mhi, dlo, dhi, klo, khi, allow, recirc],
   "seed": s, "builder": b, "cfg": CFG, "episodes": [...]}
      a MultiJobShopGraphEnv over a seeded GeneralInstanceGenerator.
  {"kind": "pad", "items": [[1, fill, n, vector] | [2, fill, r, c, matrix] ...]}
      add_padding on its own (too-large inputs included).

  CFG = {"feats": [[kind, types | -1], ...], "reward": 0|1, "updater": [class, machines, jobs],
         "updater_default": 0|1, "filters": [...], "render_mode": 0|1, "render_cfg": 0|1, "padding": 0|1}

oracle (on the implementation's own output, with gymnasium's REAL `contains`):
  every observation of reset/step is in the declared observation space (when
  use_padding is on), has the declared shapes, its mask and edge list are the
  current graph's, padding only at the end with -1 / True; done == schedule
  complete, truncated False; every legal decision is in the declared action
  space; the inner environment of every episode of the multi environment has
  the constructor's configuration and an instance inside the generator's
  ranges (extracted shape oracle of C19, command 1903).
tie (implementation == model, commands 1801-1804): declared spaces, every
  observation, the `contains` verdicts, the legal-decision sets, the inner
  configuration and sizes, add_padding results.
"""
from __future__ import annotations

import contextlib

from . import common, session
from .framework import Check, Failure

BUILDERS = ["build_disjunctive_graph", "build_agent_task_graph",
            "build_agent_task_graph_with_jobs", "build_complete_agent_task_graph"]
FO_KINDS = ["is_ready", "earliest_start_time", "duration", "is_scheduled", "position_in_job",
            "remaining_operations", "is_completed"]
FO_CLASSES = ["IsReadyObserver", "EarliestStartTimeObserver", "DurationObserver", "IsScheduledObserver",
              "PositionInJobObserver", "RemainingOperationsObserver", "IsCompletedObserver"]
FTYPES = ["operations", "machines", "jobs"]
SUPPORTED = {4: [0], 5: [1, 2]}
SHAPE_CLAUSES = ["jobs-in-range", "machines-in-range", "jobs-ge-machines", "jobs-same-length", "ids-below-M",
                 "durations-in-range", "k-in-range", "machines-distinct", "permutation-without-recirculation"]
KNOWN = "multi:episode-exceeds-declared-size"
SENTINEL = -777777


def resolved_types(fo):
    kind, types = fo
    return list(types) if types != -1 else list(SUPPORTED.get(kind, [0, 1, 2]))


# --------------------------------------------------------------------------
# implementation side
# --------------------------------------------------------------------------

@contextlib.contextmanager
def record_removes():
    """Records every JobShopGraph.remove_node call (harness-side wrapper of
    the class attribute, restored afterwards)."""
    from job_shop_lib.graphs import JobShopGraph

    calls = []
    orig = JobShopGraph.remove_node

    def remove_node(self, node_id):
        calls.append(int(node_id))
        return orig(self, node_id)

    JobShopGraph.remove_node = remove_node
    try:
        yield calls
    finally:
        JobShopGraph.remove_node = orig


_CUSTOM = {}


def custom_updater():
    """A user-defined graph updater: removes only the node of the operation
    just scheduled."""
    if "cls" not in _CUSTOM:
        from job_shop_lib.graphs.graph_updaters import GraphUpdater

        class OnlyScheduledUpdater(GraphUpdater):
            def __init__(self, dispatcher, job_shop_graph, *, subscribe=True, tag=0):
                super().__init__(dispatcher, job_shop_graph, subscribe=subscribe)
                self.tag = tag

            def update(self, scheduled_operation):
                node_id = scheduled_operation.operation.operation_id
                if not self.job_shop_graph.removed_nodes[node_id]:
                    self.job_shop_graph.remove_node(node_id)

        _CUSTOM["cls"] = OnlyScheduledUpdater
    return _CUSTOM["cls"]


def make_config(cfg):
    from job_shop_lib.dispatching import DispatcherObserverConfig
    from job_shop_lib.dispatching.feature_observers import FeatureObserverType, FeatureType
    from job_shop_lib.graphs.graph_updaters import ResidualGraphUpdater
    from job_shop_lib.reinforcement_learning import MakespanReward, IdleTimeReward

    fo = []
    for kind, types in cfg["feats"]:
        kwargs = {}
        if types != -1:
            kwargs["feature_types"] = [FeatureType(FTYPES[t]) for t in types]
        fo.append(DispatcherObserverConfig(FeatureObserverType(FO_KINDS[kind]), kwargs=kwargs))
    kw = {"feature_observer_configs": fo,
          "reward_function_config": DispatcherObserverConfig(
              class_type=IdleTimeReward if cfg["reward"] else MakespanReward),
          "ready_operations_filter": session.make_filter(cfg["filters"]),
          "render_mode": "save_gif" if cfg["render_mode"] else None,
          "render_config": {"video_config": {"fps": 4}} if cfg["render_cfg"] else None,
          "use_padding": bool(cfg["padding"])}
    ucls, rm_m, rm_j = cfg["updater"]
    if ucls == 1:
        kw["graph_updater_config"] = DispatcherObserverConfig(class_type=custom_updater(), kwargs={"tag": 7})
    elif not cfg.get("updater_default"):
        kw["graph_updater_config"] = DispatcherObserverConfig(
            class_type=ResidualGraphUpdater,
            kwargs={"remove_completed_machine_nodes": bool(rm_m), "remove_completed_job_nodes": bool(rm_j)})
    return kw


def cfg_tokens(cfg):
    """The model's encoding of the constructor's configuration."""
    return [[[k, [] if t == -1 else [list(t)]] for k, t in cfg["feats"]], cfg["reward"], list(cfg["updater"]),
            list(cfg["filters"]), cfg["render_mode"], cfg["render_cfg"], cfg["padding"]]


def observed_tokens(env, cfg, filt):
    """The configuration of a real SingleJobShopGraphEnv, in the same encoding."""
    from job_shop_lib.graphs.graph_updaters import ResidualGraphUpdater
    from job_shop_lib.reinforcement_learning import IdleTimeReward, MakespanReward

    obs_feats = []
    for o in env.composite_observer.feature_observers:
        name = type(o).__name__
        kind = FO_CLASSES.index(name) if name in FO_CLASSES else 99
        obs_feats.append([kind, [FTYPES.index(k.value) for k in o.features.keys()]])
    want = [[k, resolved_types([k, t])] for k, t in cfg["feats"]]
    feats = cfg_tokens(cfg)[0] if obs_feats == want else obs_feats
    rf = env.reward_function
    reward = 1 if type(rf) is IdleTimeReward else (0 if type(rf) is MakespanReward else 99)
    gu = env.graph_updater
    if type(gu) is ResidualGraphUpdater:
        upd = [0, int(gu.remove_completed_machine_nodes), int(gu.remove_completed_job_nodes)]
    elif type(gu) is custom_updater() and getattr(gu, "tag", None) == 7:
        upd = [1, 0, 0]
    else:
        upd = [99, 0, 0]
    f = env.dispatcher.ready_operations_filter
    filters = list(cfg["filters"]) if (f is filt) else [99]
    mode = {None: 0, "save_gif": 1}.get(env.render_mode, 99)
    vc = env.gantt_chart_creator.video_config
    rcfg = 1 if (isinstance(vc, dict) and vc.get("fps") == 4) else 0
    return [feats, reward, upd, filters, mode, rcfg, int(bool(env.use_padding))]


def enc_space(space):
    """Declared observation space -> [nodes, edges, [[t, rows, cols] sorted], anomalies]."""
    import gymnasium as gym
    import numpy as np

    bad = []
    sp = space.spaces
    mb = sp.get("removed_nodes")
    md = sp.get("edge_index")
    if not isinstance(mb, gym.spaces.MultiBinary) or len(mb.shape) != 1:
        bad.append("removed_nodes is not a 1-D MultiBinary")
    if not isinstance(md, gym.spaces.MultiDiscrete) or len(md.shape) != 2 or md.shape[0] != 2:
        bad.append("edge_index is not a (2, E) MultiDiscrete")
    nodes = int(mb.shape[0])
    edges = int(md.shape[1])
    if md.nvec.size and (np.any(md.nvec != nodes + 1) or np.any(md.start != -1)):
        bad.append("edge_index bounds are not -1 .. nodes-1")
    feats = []
    for k, box in sp.items():
        if k in ("removed_nodes", "edge_index"):
            continue
        if k not in FTYPES or not isinstance(box, gym.spaces.Box) or len(box.shape) != 2:
            bad.append(f"unexpected entry {k}")
            continue
        if not (np.all(np.isneginf(box.low)) and np.all(np.isposinf(box.high))):
            bad.append(f"{k}: bounded box")
        feats.append([FTYPES.index(k), int(box.shape[0]), int(box.shape[1])])
    return [nodes, edges, sorted(feats), bad]


def enc_action_space(space):
    return [[int(x) for x in space.nvec.tolist()], [int(x) for x in space.start.tolist()]]


def enc_matrix(a):
    """float matrix -> ints; anything not an exact small integer becomes SENTINEL."""
    import numpy as np

    out = []
    bad = False
    for row in np.asarray(a).tolist():
        r = []
        for x in row:
            if x != x or x in (float("inf"), float("-inf")) or x != int(x) or abs(x) >= 2 ** 24:
                bad = True
                r.append(SENTINEL)
            else:
                r.append(int(x))
        out.append(r)
    return out, bad


def enc_obs(obs):
    """Observation dict -> {"mask", "edge", "feats", "notes"}."""
    import numpy as np

    notes = []
    keys = list(obs.keys())
    if keys[:2] != ["removed_nodes", "edge_index"]:
        notes.append(f"keys {keys}")
    mask = obs["removed_nodes"]
    ei = obs["edge_index"]
    if mask.dtype != np.bool_ or mask.ndim != 1:
        notes.append(f"mask dtype/ndim {mask.dtype}/{mask.ndim}")
    if ei.dtype != np.int32:
        notes.append(f"edge_index dtype {ei.dtype}")
    if ei.ndim == 1:
        if ei.size:
            notes.append("1-D non-empty edge index")
        edge = []
    else:
        edge = [[int(x) for x in row] for row in ei.tolist()]
    feats = []
    for k in keys:
        if k in ("removed_nodes", "edge_index"):
            continue
        m, bad = enc_matrix(obs[k])
        if bad:
            notes.append(f"{k}: non-integral / non-finite feature value")
        if obs[k].dtype != np.float32:
            notes.append(f"{k}: dtype {obs[k].dtype}")
        feats.append([FTYPES.index(k) if k in FTYPES else 99, m])
    return {"mask": [int(x) for x in mask.tolist()], "edge": edge, "feats": feats, "notes": notes}


def graph_state(g):
    return [[int(bool(x)) for x in g.removed_nodes], [[int(u), int(v)] for u, v in g.graph.edges()]]


def legal_decisions(dispatcher, action_space):
    """[[job, machine, contained] ...] from the real dispatcher and the real space."""
    import numpy as np

    out = []
    inst = dispatcher.instance
    for j in range(inst.num_jobs):
        p = dispatcher.job_next_operation_index[j]
        if p >= len(inst.jobs[j]):
            continue
        op = inst.jobs[j][p]
        ms = list(op.machines) + ([-1] if len(op.machines) == 1 else [])
        for m in ms:
            out.append([j, int(m), int(bool(action_space.contains(np.array([j, m], dtype=np.int64))))])
    return out


def choose_action(dispatcher, pick):
    ops = dispatcher.available_operations()
    if not ops:
        return None
    op = ops[pick[0] % len(ops)]
    if pick[1] < 0 and len(op.machines) == 1:
        return (op.job_id, -1)
    return (op.job_id, op.machines[abs(pick[1]) % len(op.machines)])


def snapshot(outer, inner, space, action_space, calls, obs=None, exc=0, step=None, single=True):
    """Everything compared after one reset/step. `obs` None = the call raised."""
    d = inner.dispatcher
    rec = {"exc": exc, "removes": list(calls), "graph": graph_state(inner.job_shop_graph),
           "jnext": [int(x) for x in d.job_next_operation_index],
           "legal": legal_decisions(d, action_space),
           "complete": int(sum(len(r) for r in d.schedule.schedule) == d.instance.num_operations)}
    del calls[:]
    if obs is not None:
        rec["obs"] = enc_obs(obs)
        rec["contains"] = int(bool(space.contains(obs)))
        if single:
            from job_shop_lib.dispatching.feature_observers import FeatureType

            rec["same_arrays"] = int(all(obs[k] is inner.composite_observer.features[FeatureType(k)]
                                         for k in obs if k in FTYPES))
    if not single:
        # the inner environment's own (unpadded by the outer one) observation
        rec["inner_obs"] = enc_obs(inner.get_observation())
    if step is not None:
        _o, reward, done, trunc, info = step
        rec["step"] = [int(bool(done)), int(bool(trunc)), int(type(done) is bool), int(type(trunc) is bool),
                       int(sorted(info.keys()) == ["available_operations", "feature_names"]),
                       int(isinstance(reward, (int, float)) and not isinstance(reward, bool))]
    return rec


def scribble(observation):
    """After it has been recorded, the observation is treated the way a consumer may treat what it was handed:
    arrays overwritten in place (in-place normalisation, masking of the -1 padding before a gather), a key added.
    Later observations must not show any of it."""
    import numpy as np

    if isinstance(observation, dict):
        for v in list(observation.values()):
            if isinstance(v, np.ndarray) and v.size:
                v[...] = 55
        observation["scribbled_by_the_caller"] = 1


def run_episodes(outer, get_inner, space, action_space, episodes, calls, single):
    from job_shop_lib.exceptions import ValidationError

    eps = []
    for picks in episodes:
        ep = {"obs": []}
        try:
            o, info = outer.reset()
            exc = 0
        except ValidationError:
            o, exc = None, 1
        except Exception as e:  # pylint: disable=broad-except
            o, exc = None, 4
            ep["exc_text"] = repr(e)[:200]
        inner = get_inner()
        ep["inner"] = inner_info(inner)
        ep["obs"].append(snapshot(outer, inner, space, action_space, calls, o, exc, None, single))
        scribble(o)
        raised = exc != 0
        for n, pick in enumerate(picks):
            if raised and n >= 2:
                break
            act = choose_action(inner.dispatcher, pick)
            if act is None:
                break
            try:
                if single and len(pick) > 2 and pick[2]:
                    # the caller dispatches on the environment's public dispatcher between two steps and then
                    # asks for the observation: for the model one more (dispatch, observation); no step tuple
                    d = inner.dispatcher
                    op = d.next_operation(act[0])
                    d.dispatch(op, op.machine_id if act[1] == -1 else act[1])
                    st = None
                    o, exc = outer.get_observation(), 0
                else:
                    st = outer.step(act)
                    o, exc = st[0], 0
            except ValidationError:
                st, o, exc = None, None, 1
            except Exception as e:  # pylint: disable=broad-except
                st, o, exc = None, None, 4
                ep["exc_text"] = repr(e)[:200]
            raised = raised or exc != 0
            snap = snapshot(outer, inner, space, action_space, calls, o, exc, st, single)
            snap["action"] = [int(act[0]), int(act[1])]
            ep["obs"].append(snap)
            scribble(o)
        eps.append(ep)
    return eps


def feat_order(env):
    """Key order of the composite observer's feature dictionary (= order in which the Box entries were declared)."""
    return [FTYPES.index(ft.value) for ft in env.composite_observer.features]


def oracle_space(obs):
    """The declared observation space with its feature entries in the composite's order."""
    nodes, edges, feats, _ = obs["space"]
    by = dict((t, [t, r, c]) for t, r, c in feats)
    return [nodes, edges, [by[t] for t in obs["feat_order"] if t in by]]


def oracle_items(obs):
    sp = oracle_space(obs)
    return [[sp, s["obs"]["mask"], s["obs"]["edge"], s["obs"]["feats"]]
            for ep in obs["episodes"] for s in ep["obs"] if "obs" in s]


def inner_info(inner):
    return {"spec": common.spec_of_instance(inner.instance),
            "space": enc_space(inner.observation_space),
            "action": enc_action_space(inner.action_space)}


def run_single(case):
    from job_shop_lib import graphs
    from job_shop_lib.reinforcement_learning import SingleJobShopGraphEnv

    instance = common.build_instance(case["spec"])
    kw = make_config(case["cfg"])
    filt = kw["ready_operations_filter"]
    with record_removes() as calls:
        try:
            g = getattr(graphs, BUILDERS[case["builder"]])(instance)
            env = SingleJobShopGraphEnv(g, kw.pop("feature_observer_configs"), **kw)
        except Exception as e:  # pylint: disable=broad-except
            return {"ctor": common.exn_code(e), "text": repr(e)[:200]}
        if case.get("copied"):
            # the caller works on a deep copy of the environment it configured (copy.deepcopy: what vectorised
            # environments and tree searches do): the copy is configured like the original
            import copy

            env = copy.deepcopy(env)
        del calls[:]
        out = {"ctor": 0, "space": enc_space(env.observation_space), "action": enc_action_space(env.action_space),
               "tokens": observed_tokens(env, case["cfg"], filt), "feat_order": feat_order(env)}
        out["episodes"] = run_episodes(env, lambda: env, env.observation_space, env.action_space,
                                       case["episodes"], calls, True)
    return out


def gen_kwargs(p, seed):
    jlo, jhi, mlo, mhi, dlo, dhi, klo, khi, allow, recirc = p
    return dict(num_jobs=(jlo, jhi), num_machines=(mlo, mhi), duration_range=(dlo, dhi),
                allow_less_jobs_than_machines=bool(allow), allow_recirculation=bool(recirc),
                machines_per_operation=(klo, khi), name_suffix="g", seed=seed)


def model_params(p):
    return list(p) + [[ord("g")], []]


def run_multi(case):
    from job_shop_lib import graphs
    from job_shop_lib.generation import GeneralInstanceGenerator
    from job_shop_lib.reinforcement_learning import MultiJobShopGraphEnv

    kw = make_config(case["cfg"])
    filt = kw["ready_operations_filter"]
    fo = kw.pop("feature_observer_configs")
    tokens = []
    ids = []
    orig = MultiJobShopGraphEnv.reset

    def reset(self, *a, **k):
        # the inner configuration is read right after each reset (also a raising one)
        try:
            return orig(self, *a, **k)
        finally:
            inner = self.single_job_shop_graph_env
            tokens.append(observed_tokens(inner, case["cfg"], filt))
            ids.append(inner)

    with record_removes() as calls:
        try:
            gen = GeneralInstanceGenerator(**gen_kwargs(case["params"], case["seed"]))
            env = MultiJobShopGraphEnv(gen, fo, graph_initializer=getattr(graphs, BUILDERS[case["builder"]]), **kw)
        except Exception as e:  # pylint: disable=broad-except
            return {"ctor": common.exn_code(e), "text": repr(e)[:200]}
        stored = int(env.feature_observer_configs is fo and env.graph_updater_config is
                     kw.get("graph_updater_config", env.graph_updater_config)
                     and env.reward_function_config is kw["reward_function_config"])
        if case.get("copied"):
            import copy

            env = copy.deepcopy(env)
        del calls[:]
        first = env.single_job_shop_graph_env
        out = {"ctor": 0, "space": enc_space(env.observation_space), "action": enc_action_space(env.action_space),
               "max": inner_info(first), "tokens0": observed_tokens(first, case["cfg"], filt),
               "feat_order": feat_order(first),
               "stored": stored}
        MultiJobShopGraphEnv.reset = reset
        try:
            out["episodes"] = run_episodes(env, lambda: env.single_job_shop_graph_env, env.observation_space,
                                           env.action_space, case["episodes"], calls, False)
        finally:
            MultiJobShopGraphEnv.reset = orig
    for ep, tk in zip(out["episodes"], tokens):
        ep["tokens"] = tk
    out["distinct_inner"] = int(len({id(x) for x in ids + [first]}) == len(ids) + 1)
    return out


def run_pad(case):
    import numpy as np
    from job_shop_lib.exceptions import ValidationError
    from job_shop_lib.reinforcement_learning import add_padding

    out = []
    for it in case["items"]:
        if it[0] == 1:
            arr, shape, fill = np.array(it[3], dtype=np.int64), (it[2],), it[1]
        else:
            rows = it[4]
            arr = np.array(rows, dtype=np.int64) if rows else np.array([], dtype=np.int64)
            shape, fill = (it[2], it[3]), it[1]
        try:
            r = add_padding(arr, shape, padding_value=fill)
        except ValidationError:
            out.append([])
            continue
        except Exception as e:  # pylint: disable=broad-except
            out.append([None, repr(e)[:120]])
            continue
        out.append([[int(x) for x in r.tolist()] if it[0] == 1 else [[int(x) for x in row] for row in r.tolist()],
                    list(r.shape)])
    return out


# --------------------------------------------------------------------------
# the check
# --------------------------------------------------------------------------

class C18(Check):
    pid = "C18"
    nontrivial_rule = ("a single/multi case is non-trivial when at least one episode has >= 2 accepted steps and "
                       "the instance has >= 2 jobs; a padding case when it has both a raising and a non-raising "
                       "item; distinct = distinct SHA1 of the case")
    assumptions = [
        "valid instances: every job non-empty, durations >= 0, every operation has >= 1 machine (empty jobs make the "
        "disjunctive builder raise: outside the property)",
        "use_padding=False is a documented opt-out (the library's own test expects the edge-index shape to change): "
        "for such environments the observations are compared with the model's unpadded ones and the real `contains` "
        "verdict with the model's, but membership is not demanded",
        "generators: well-formed parameter records for which the constructor of the multi environment succeeds "
        "(fewer jobs than machines allowed, or max machines <= max jobs; machines_per_operation <= min machines)",
        "feature observer configurations without repeated feature types; an EarliestStartTimeObserver whose "
        "constructor raises (property C11's finding) makes the environment constructor raise: such cases are counted "
        "and skipped",
        "the setters of the multi environment (use_padding, ready_operations_filter, reward_function) are not "
        "exercised: 'the configuration it was constructed with' is compared",
    ]
    modelled_not_verified = [
        "modelled (coq/model/EnvSpaces.v): MultiDiscrete/MultiBinary/Box/Dict membership as index arithmetic, the action "
        "space expression, _get_observation_space, get_observation, _get_edge_index, add_padding, step's done/truncated, "
        "MultiJobShopGraphEnv.__init__/reset/_add_padding_to_observation over the generator model of C19 and the graph "
        "builders / remove_node of C16",
        "assumed (validated only by calling the real thing on every observation and every legal action): gymnasium "
        "0.29 `contains` and dtype rules (bool mask, int32 edge index, float32 features), numpy array construction, "
        "broadcasting in add_padding, networkx edge iteration order (sorted by source node in insertion order) and "
        "remove_node, copy.deepcopy of the graph at reset",
        "the graph updater's CHOICE of nodes is not modelled (property C17): the model is advanced with the "
        "remove_node calls the real updater made (recorded by a harness-side wrapper of JobShopGraph.remove_node); "
        "feature VALUES are property C11's: only their shapes, identity and padding are checked here",
        "render_mode / render_config only as pass-through tokens; render() is never called",
    ]

    # ---------------------------------------------------------------- generation
    def budget(self):
        return 700 if self.tier == "quick" else 30000

    def search_budget(self):
        return 1500 if self.tier == "quick" else 10000

    def gen_cfg(self, rng, multi=False):
        feats = []
        for _ in range(rng.choice([0, 1, 1, 2, 2, 3, 4])):
            # EarliestStartTimeObserver (kind 1) only in single environments: its constructor raises on
            # instances with ragged per-machine operation counts (property C11's finding), which inside
            # MultiJobShopGraphEnv.reset would surface as a ValueError of reset
            kind = rng.choice([0, 0, 2, 3, 4, 5, 6, 6] + ([] if multi else [1]))
            sup = SUPPORTED.get(kind, [0, 1, 2])
            if rng.random() < 0.5:
                types = -1
            else:
                types = rng.sample(sup, rng.randint(1, len(sup)))
            feats.append([kind, types])
        r = rng.random()
        if r < 0.3:
            upd, dflt = [0, 1, 1], 1
        elif r < 0.85:
            upd, dflt = [0, rng.randrange(2), rng.randrange(2)], 0
        else:
            upd, dflt = [1, 0, 0], 0
        filters = []
        if rng.random() < 0.6:
            filters = [rng.randrange(4) for _ in range(rng.randint(1, 2))]
        return {"feats": feats, "reward": rng.randrange(2), "updater": upd, "updater_default": dflt,
                "filters": filters, "render_mode": rng.randrange(2), "render_cfg": rng.randrange(2),
                "padding": int(rng.random() < 0.8)}

    @staticmethod
    def gen_picks(rng, n_eps, n_steps):
        # a third element 1 = this decision is dispatched directly on env.dispatcher (single environments)
        return [[[rng.randrange(6), rng.choice([-1, 0, 1, 2])] + ([1] if rng.random() < 0.08 else [])
                 for _ in range(n_steps)] for _ in range(n_eps)]

    def gen_single(self, rng):
        big = self.tier == "thorough" and rng.random() < 0.3
        spec = common.gen_instance(rng, max_jobs=5 if big else 4, max_machines=4 if big else 3,
                                   max_ops=4 if big else 3, big=big)
        n_ops = sum(len(j) for j in spec)
        full = rng.random() < 0.8
        case = {"kind": "single", "spec": spec, "builder": rng.randrange(4), "cfg": self.gen_cfg(rng),
                "episodes": self.gen_picks(rng, rng.choice([1, 2, 2, 3]), n_ops if full else rng.randint(0, n_ops))}
        if rng.random() < 0.2:
            case["copied"] = 1
            self.note("env_deep_copied_before_use")
        return case

    def gen_params(self, rng):
        jlo = rng.choice([1, 2, 2, 3])
        jhi = jlo + rng.choice([0, 1, 1, 2])
        mlo = rng.choice([1, 2, 2])
        mhi = mlo + rng.choice([0, 1, 1])
        dlo = rng.choice([0, 1, 1])
        dhi = dlo + rng.choice([0, 3, 9])
        allow = rng.choice([0, 1, 1])
        recirc = rng.choice([0, 0, 1])
        if rng.random() < 0.5 or mlo == 1:
            klo = khi = 1
        else:
            khi = rng.randint(2, mlo)
            klo = rng.randint(1, khi)
        if not allow and mhi > jhi:
            jhi = mhi
        return [jlo, min(jhi, 4), mlo, min(mhi, 3), dlo, dhi, klo, khi, allow, recirc]

    def gen_multi(self, rng):
        p = self.gen_params(rng)
        if not p[8] and p[3] > p[1]:
            p[8] = 1
        case = {"kind": "multi", "params": p, "seed": rng.randrange(10 ** 6), "builder": rng.randrange(4),
                "cfg": self.gen_cfg(rng, True),
                "episodes": self.gen_picks(rng, rng.choice([2, 3, 3, 4]), p[1] * p[3])}
        if rng.random() < 0.2:
            case["copied"] = 1
            self.note("env_deep_copied_before_use")
        return case

    def gen_pad(self, rng):
        items = []
        for _ in range(rng.randint(4, 10)):
            fill = rng.choice([-1, -1, 0, 1, 7])
            if rng.random() < 0.4:
                vec = [rng.randint(-2, 9) for _ in range(rng.randint(0, 5))]
                items.append([1, fill, max(0, len(vec) + rng.choice([-2, -1, 0, 0, 1, 3])), vec])
            else:
                r, c = rng.randint(0, 3), rng.randint(1, 4)
                m = [[rng.randint(-2, 9) for _ in range(c)] for _ in range(r)]
                items.append([2, fill, max(0, r + rng.choice([-1, 0, 0, 1, 2])),
                              max(0, c + rng.choice([-1, 0, 0, 1, 2])), m])
        return {"kind": "pad", "items": items}

    def gen_cases(self, rng, n):
        cases = []
        for i in range(n):
            r = rng.random()
            if r < 0.5:
                c = self.gen_single(rng)
            elif r < 0.93:
                c = self.gen_multi(rng)
            else:
                c = self.gen_pad(rng)
            cases.append(c)
            self.note("cases_" + c["kind"])
            if c["kind"] != "pad":
                self.note("builder_%d" % c["builder"])
                self.note("padding_on", c["cfg"]["padding"])
                self.note("custom_updater", int(c["cfg"]["updater"][0] == 1))
                self.note("nondefault_updater", int(c["cfg"]["updater"] != [0, 1, 1]))
                self.note("feature_observers", len(c["cfg"]["feats"]))
                self.note("episodes", len(c["episodes"]))
            if c["kind"] == "single":
                st = common.instance_stats(c["spec"])
                self.note("single_flexible", int(st["flexible"]))
            if c["kind"] == "multi":
                self.note("multi_recirculation", c["params"][9])
                self.note("multi_flexible", int(c["params"][7] > 1))
        return cases

    # ---------------------------------------------------------------- implementation
    def run_impl(self, case):
        common.import_impl()
        if case["kind"] == "single":
            return run_single(case)
        if case["kind"] == "multi":
            return run_multi(case)
        return run_pad(case)

    # ---------------------------------------------------------------- model
    def model_requests(self, case, obs):
        if case["kind"] == "pad":
            return [(1804, case["items"])]
        if obs.get("ctor") != 0:
            return []
        tok = cfg_tokens(case["cfg"])
        reqs = []
        if case["kind"] == "single":
            eps = []
            for ep in obs["episodes"]:
                # features: the real matrices when an observation was returned, else zero matrices of the
                # declared shapes (the call raised: only the raise is compared)
                eps.append([[s["removes"], s["obs"]["feats"] if "obs" in s else []] for s in ep["obs"]])
            reqs.append((1802, [case["spec"], case["builder"], tok, eps]))
            reqs.append((1805, oracle_items(obs)))
            for ep in obs["episodes"]:
                for s in ep["obs"]:
                    reqs.append((1801, [case["spec"], s["jnext"], [], []]))
        else:
            eps = []
            for ep in obs["episodes"]:
                eps.append([ep["inner"]["spec"], [[s["removes"], s["inner_obs"]["feats"]] for s in ep["obs"]]])
            mp = model_params(case["params"])
            reqs.append((1803, [mp, case["builder"], tok, obs["max"]["spec"], eps]))
            reqs.append((1903, [[mp, ep["inner"]["spec"]] for ep in obs["episodes"]]))
            reqs.append((1805, oracle_items(obs)))
            for ep in obs["episodes"]:
                for s in ep["obs"]:
                    reqs.append((1801, [ep["inner"]["spec"], s["jnext"], [], [obs["action"][0]]]))
        return reqs

    # ---------------------------------------------------------------- judge
    def judge(self, case, obs, outs):
        if case["kind"] == "pad":
            return self.judge_pad(case, obs, outs)
        if obs.get("ctor") != 0:
            self.note("constructor_raised_skipped")
            return []          # the constructor raised (EarliestStartTimeObserver / C11): nothing to observe
        if case["kind"] == "single":
            return self.judge_single(case, obs, outs)
        return self.judge_multi(case, obs, outs)

    def judge_pad(self, case, obs, outs):
        fails = []
        for i, (it, real, mod) in enumerate(zip(case["items"], obs, outs[0])):
            arr = it[3] if it[0] == 1 else it[4]
            if it[0] == 1:
                too_large = it[2] < len(arr)
                want_shape = [it[2]]
            else:
                rows, cols = len(arr), (len(arr[0]) if arr else 0)
                too_large = it[2] < rows or it[3] < cols
                want_shape = [it[2], it[3]]
            if real and real[0] is None:
                fails.append(Failure("oracle", "padding:unexpected-exception", f"item #{i} {it}: {real[1]}"))
                continue
            got = real[0] if real else None
            want = mod[0] if mod else None
            if got != want:
                fails.append(Failure("tie", "padding:impl-vs-model", f"item #{i} {it}", expected=want, observed=got))
            if (not real) != too_large:
                fails.append(Failure("oracle", "padding:raises-iff-too-large",
                                     f"item #{i} {it}: raised={not real}, input larger than output={too_large}"))
            if real:
                if real[1] != want_shape:
                    fails.append(Failure("oracle", "padding:shape", f"item #{i} {it}: shape {real[1]}"))
                elif not self.block_ok(it, real[0]):
                    fails.append(Failure("oracle", "padding:leading-block-and-fill",
                                         f"item #{i} {it}: result {real[0]}"))
        return fails

    @staticmethod
    def block_ok(it, res):
        fill = it[1]
        if it[0] == 1:
            vec = it[3]
            return res[:len(vec)] == vec and all(x == fill for x in res[len(vec):])
        m = it[4]
        for i, row in enumerate(res):
            for j, x in enumerate(row):
                inside = i < len(m) and j < len(m[0])
                if x != (m[i][j] if inside else fill):
                    return False
        return True

    # -- shared pieces ----------------------------------------------------
    @staticmethod
    def cmp_space(fails, what, real, model, prefix):
        """real = enc_space (...), model = [nodes, edges, feats]"""
        if real[3]:
            fails.append(Failure("oracle", prefix + ":declared-space-form", f"{what}: {real[3]}"))
        m = [model[0], model[1], sorted(model[2])]
        if real[:3] != m:
            fails.append(Failure("tie", prefix + ":declared-space", f"{what}: declared observation space differs",
                                 expected=m, observed=real[:3]))

    def check_obs_against_graph(self, fails, where, s, space, prefix, padded_mask_fill):
        """Oracle: the observation mirrors the real graph, fixed shapes, padding at the end only."""
        o = s["obs"]
        removed, edges = s["graph"]
        nodes, n_edges = space[0], space[1]
        if o["notes"]:
            fails.append(Failure("oracle", prefix + ":obs-form", f"{where}: {o['notes']}"))
        mask = o["mask"]
        if mask[:len(removed)] != removed or any(x != 1 for x in mask[len(removed):]) or len(mask) != nodes:
            fails.append(Failure("oracle", prefix + ":mask-mirrors-graph",
                                 f"{where}: removed_nodes of the observation vs the graph's flags (+ True padding "
                                 f"up to {nodes})", expected=removed, observed=mask))
        e = o["edge"]
        src = [u for u, _ in edges]
        dst = [v for _, v in edges]
        ok = (len(e) == 2 and e[0][:len(src)] == src and e[1][:len(dst)] == dst
              and all(x == -1 for x in e[0][len(src):] + e[1][len(dst):])
              and len(e[0]) == n_edges and len(e[1]) == n_edges)
        if not ok:
            fails.append(Failure("oracle", prefix + ":edges-mirror-graph",
                                 f"{where}: edge_index vs the graph's edge list (+ -1 padding up to {n_edges})",
                                 expected=[src, dst], observed=e))

    def check_legal(self, fails, where, s, mod, prefix, known_ok=False):
        """s['legal'] (real) against the model's answer of command 1801."""
        _nvec, _start, legal, flags, _ = mod
        real = sorted(s["legal"])
        model = sorted([a[0], a[1], f] for a, f in zip(legal, flags))
        tie_ok = real == model
        if not tie_ok:
            fails.append(Failure("tie", prefix + ":legal-decisions", f"{where}: legal decisions / membership differ",
                                 expected=model, observed=real))
        outside = [a for a in real if not a[2]]
        if outside:
            sub = KNOWN if (known_ok and tie_ok) else prefix + ":legal-action-outside-space"
            fails.append(Failure("oracle", sub,
                                 f"{where}: legal decision(s) {[a[:2] for a in outside]} not in the declared action "
                                 f"space MultiDiscrete({_nvec}, start={_start})", observed=outside))

    @staticmethod
    def check_spec_oracle(fails, where, s, verdict, pad, prefix):
        """The extracted specification [obs_contains] applied to the implementation's observation."""
        if verdict != s["contains"]:
            fails.append(Failure("tie", prefix + ":contains-vs-extracted-spec",
                                 f"{where}: gymnasium's contains = {s['contains']}, the extracted specification "
                                 f"says {verdict}"))
        if pad and not verdict:
            fails.append(Failure("oracle", prefix + ":obs-in-space",
                                 f"{where}: the observation is not in the declared space (extracted specification)"))

    @staticmethod
    def check_step(fails, where, s, prefix):
        if "step" not in s:
            return
        done, trunc, tb1, tb2, info_ok, rw_ok = s["step"]
        if done != s["complete"]:
            fails.append(Failure("oracle", prefix + ":done-iff-complete",
                                 f"{where}: done={done} but every operation scheduled={s['complete']}"))
        if trunc or not tb2:
            fails.append(Failure("oracle", prefix + ":truncated-false", f"{where}: truncated={trunc}"))
        if not (tb1 and info_ok and rw_ok):
            fails.append(Failure("oracle", prefix + ":step-tuple-form", f"{where}: {s['step']}"))

    # -- single -----------------------------------------------------------
    def judge_single(self, case, obs, outs):
        fails = []
        head = outs[0]
        if not head or head[0] != 1:
            return [Failure("tie", "single:graph", "the model's graph builder failed where the library's succeeded")]
        _, mspace, manvec, meps = head
        self.cmp_space(fails, "single env", obs["space"], mspace, "single")
        if obs["action"] != [manvec, [0, -1]]:
            fails.append(Failure("tie", "single:action-space", "declared action space differs",
                                 expected=[manvec, [0, -1]], observed=obs["action"]))
        tok = cfg_tokens(case["cfg"])
        if obs["tokens"] != tok:
            fails.append(Failure("oracle", "single:constructor-config",
                                 "the environment does not hold the configuration it was given",
                                 expected=tok, observed=obs["tokens"]))
        pad = case["cfg"]["padding"]
        spec_verdicts = list(outs[1])
        k = 2
        for ei, (ep, mep) in enumerate(zip(obs["episodes"], meps)):
            for si, (s, mo) in enumerate(zip(ep["obs"], mep)):
                where = f"episode {ei} observation {si}"
                self.note("observations")
                self.note("legal_decisions", len(s["legal"]))
                if "obs" in s:
                    self.check_spec_oracle(fails, where, s, spec_verdicts.pop(0), pad, "single")
                self.check_legal(fails, where, s, outs[k], "single")
                k += 1
                self.check_step(fails, where, s, "single")
                if "obs" not in s:
                    if mo:
                        fails.append(Failure("tie", "single:obs", f"{where}: the library raised, the model did not"))
                    fails.append(Failure("oracle", "single:reset-step-raised",
                                         f"{where}: reset/step raised (code {s['exc']}) {ep.get('exc_text', '')}"))
                    continue
                o = s["obs"]
                if not mo:
                    fails.append(Failure("tie", "single:obs", f"{where}: the model raises, the library did not"))
                    continue
                mmask, medge, _mf, min_space = mo
                if o["mask"] != mmask or o["edge"] != medge:
                    fails.append(Failure("tie", "single:obs", f"{where}: mask / edge index differ from the model",
                                         expected=[mmask, medge], observed=[o["mask"], o["edge"]]))
                if s["contains"] != min_space:
                    fails.append(Failure("tie", "single:contains",
                                         f"{where}: observation_space.contains = {s['contains']}, model {min_space}"))
                if not s.get("same_arrays", 1):
                    fails.append(Failure("oracle", "single:features-are-the-composite's",
                                         f"{where}: a feature entry is not the composite observer's matrix"))
                if pad:
                    if not s["contains"]:
                        fails.append(Failure("oracle", "single:obs-in-space",
                                             f"{where}: observation not in the declared observation space"))
                    self.check_obs_against_graph(fails, where, s, obs["space"], "single", 1)
                else:
                    removed, edges = s["graph"]
                    want = [[u for u, _ in edges], [v for _, v in edges]] if edges else []
                    if o["mask"] != removed or o["edge"] != want:
                        fails.append(Failure("oracle", "single:obs-mirrors-graph",
                                             f"{where}: unpadded observation differs from the graph",
                                             expected=[removed, want], observed=[o["mask"], o["edge"]]))
                shapes = sorted([t, len(m), len(m[0]) if m else 0] for t, m in o["feats"])
                if pad and shapes != obs["space"][2]:
                    fails.append(Failure("oracle", "single:feature-shapes",
                                         f"{where}: feature shapes {shapes}, declared {obs['space'][2]}"))
        return fails

    # -- multi ------------------------------------------------------------
    def judge_multi(self, case, obs, outs):
        fails = []
        head = outs[0]
        tok = cfg_tokens(case["cfg"])
        if not head or head[0] != 1:
            return [Failure("tie", "multi:generator-replay",
                            "the model could not reproduce the max-size instance / its graph",
                            observed=obs["max"]["spec"])]
        _, mspace, manvec, meps = head
        self.cmp_space(fails, "multi env", obs["space"], mspace, "multi")
        if obs["action"] != [manvec, [0, -1]]:
            fails.append(Failure("tie", "multi:action-space", "declared action space differs",
                                 expected=[manvec, [0, -1]], observed=obs["action"]))
        if obs["space"][:3] != obs["max"]["space"][:3] or obs["action"] != obs["max"]["action"]:
            fails.append(Failure("oracle", "multi:declared-spaces-are-the-max-sample's",
                                 "the declared spaces are not those of the constructor's inner environment"))
        if obs["tokens0"] != tok:
            fails.append(Failure("oracle", "multi:constructor-config",
                                 "the constructor's inner environment does not hold the configuration given",
                                 expected=tok, observed=obs["tokens0"]))
        if not obs.get("stored", 1):
            fails.append(Failure("oracle", "multi:stored-config",
                                 "the multi environment does not keep the configuration objects it was given"))
        if not obs.get("distinct_inner", 1):
            fails.append(Failure("oracle", "multi:fresh-inner-env", "reset did not build a new inner environment"))
        pad = case["cfg"]["padding"]
        shape_out = outs[1]
        spec_verdicts = list(outs[2])
        k = 3
        for ei, (ep, mep) in enumerate(zip(obs["episodes"], meps)):
            where0 = f"episode {ei}"
            # instance inside the generator's ranges (C19's extracted oracle)
            bad = [n for n, okc in zip(SHAPE_CLAUSES, shape_out[ei]) if not okc]
            if bad:
                fails.append(Failure("oracle", "multi:instance-in-generator-ranges",
                                     f"{where0}: clauses {bad} fail for params {case['params']}",
                                     observed=ep["inner"]["spec"]))
            if not mep or mep[0] != 1:
                fails.append(Failure("tie", "multi:generator-replay",
                                     f"{where0}: the model could not reproduce this episode's instance",
                                     observed=ep["inner"]["spec"]))
                k += len(ep["obs"])
                for s in ep["obs"]:
                    if "obs" in s:
                        spec_verdicts.pop(0)
                continue
            _, mcfg, mispace, mianvec, mfits, mobs = mep
            # configuration of the inner environment = constructor's
            tk = ep.get("tokens")
            if tk != tok:
                fails.append(Failure("oracle", "multi:reset-config",
                                     f"{where0}: the inner environment built by reset() does not have the "
                                     "configuration the multi environment was constructed with "
                                     "[features, reward, updater [class, machines, jobs], filter, render mode, "
                                     "render config, use_padding]", expected=tok, observed=tk))
            if tk != mcfg:
                fails.append(Failure("tie", "multi:reset-config", f"{where0}: inner configuration differs from the "
                                     "model's", expected=mcfg, observed=tk))
            self.cmp_space(fails, where0 + " inner env", ep["inner"]["space"], mispace, "multi")
            if ep["inner"]["action"] != [mianvec, [0, -1]]:
                fails.append(Failure("tie", "multi:action-space", f"{where0}: inner action space differs",
                                     expected=[mianvec, [0, -1]], observed=ep["inner"]["action"]))
            isp, osp = ep["inner"]["space"], obs["space"]
            fits = int(isp[0] <= osp[0] and isp[1] <= osp[1] and len(isp[2]) == len(osp[2]) and
                       all(a[0] == b[0] and a[1] <= b[1] and a[2] == b[2] for a, b in zip(isp[2], osp[2])))
            if fits != mfits:
                fails.append(Failure("tie", "multi:sizes-fit", f"{where0}: fits={fits}, model {mfits}"))
            action_fits = ep["inner"]["action"][0][1] <= obs["action"][0][1] and \
                ep["inner"]["action"][0][0] <= obs["action"][0][0]
            for si, (s, mo) in enumerate(zip(ep["obs"], mobs)):
                where = f"{where0} observation {si}"
                self.note("observations")
                self.note("legal_decisions", len(s["legal"]))
                if "obs" in s:
                    self.check_spec_oracle(fails, where, s, spec_verdicts.pop(0), pad, "multi")
                self.check_legal(fails, where, s, outs[k], "multi", known_ok=not action_fits)
                k += 1
                self.check_step(fails, where, s, "multi")
                if "obs" not in s:
                    tie_ok = not mo
                    if not tie_ok:
                        fails.append(Failure("tie", "multi:obs", f"{where}: the library raised, the model did not"))
                    if s["exc"] == 1 and pad and tie_ok and not fits:
                        self.note("known_finding_observations")
                        fails.append(Failure("oracle", KNOWN,
                                             f"{where}: reset/step raised ValidationError in add_padding: this "
                                             f"episode's sizes {isp[:3]} exceed the declared ones {osp[:3]} (taken "
                                             "from one random max-size instance)"))
                    else:
                        fails.append(Failure("oracle", "multi:reset-step-raised",
                                             f"{where}: reset/step raised (code {s['exc']}) {ep.get('exc_text', '')}"))
                    continue
                o = s["obs"]
                if not mo:
                    fails.append(Failure("tie", "multi:obs", f"{where}: the model raises, the library did not"))
                    continue
                mmask, medge, mfeats, min_space = mo
                if [o["mask"], o["edge"], o["feats"]] != [mmask, medge, mfeats]:
                    fails.append(Failure("tie", "multi:obs", f"{where}: observation differs from the model",
                                         expected=[mmask, medge, mfeats], observed=[o["mask"], o["edge"], o["feats"]]))
                if s["contains"] != min_space:
                    fails.append(Failure("tie", "multi:contains",
                                         f"{where}: observation_space.contains = {s['contains']}, model {min_space}"))
                if not pad:
                    removed, edges = s["graph"]
                    want = [[u for u, _ in edges], [v for _, v in edges]] if edges else []
                    if o["mask"] != removed or o["edge"] != want:
                        fails.append(Failure("oracle", "multi:obs-mirrors-graph",
                                             f"{where}: unpadded observation differs from the graph"))
                    continue
                if not s["contains"]:
                    fails.append(Failure("oracle", "multi:obs-in-space",
                                         f"{where}: observation not in the declared observation space"))
                self.check_obs_against_graph(fails, where, s, obs["space"], "multi", 1)
                # features: the inner matrices in the leading block, -1 elsewhere, declared shapes
                inner_f = dict((t, m) for t, m in s["inner_obs"]["feats"])
                decl = dict((t, (r, c)) for t, r, c in obs["space"][2])
                for t, m in o["feats"]:
                    src = inner_f.get(t)
                    r, c = decl.get(t, (-1, -1))
                    okf = src is not None and len(m) == r and all(len(row) == c for row in m)
                    if okf:
                        for i, row in enumerate(m):
                            for j, x in enumerate(row):
                                inside = i < len(src) and j < len(src[0])
                                if x != (src[i][j] if inside else -1):
                                    okf = False
                    if not okf:
                        fails.append(Failure("oracle", "multi:feature-padding",
                                             f"{where}: feature {FTYPES[t] if t < 3 else t} is not the inner matrix "
                                             f"padded with -1 to {(r, c)}", expected=src, observed=m))
        return fails

    # ---------------------------------------------------------------- evidence
    def nontrivial(self, case, obs):
        if case["kind"] == "pad":
            return any(not r for r in obs) and any(r for r in obs)
        if obs.get("ctor") != 0:
            return False
        jobs = len(case["spec"]) if case["kind"] == "single" else case["params"][1]
        return jobs >= 2 and any(sum(1 for s in ep["obs"][1:] if "obs" in s) >= 2 for ep in obs["episodes"])

    def shrink_candidates(self, case):
        if case.get("copied"):
            yield {k: v for k, v in case.items() if k != "copied"}
        if case["kind"] == "pad":
            for i in range(len(case["items"])):
                yield dict(case, items=case["items"][:i] + case["items"][i + 1:])
            return
        eps = case["episodes"]
        for n in range(1, len(eps)):
            yield dict(case, episodes=eps[:n])
        if eps and len(eps[-1]) > 1:
            yield dict(case, episodes=eps[:-1] + [eps[-1][:len(eps[-1]) // 2]])
            yield dict(case, episodes=eps[:-1] + [eps[-1][:-1]])
        cfg = case["cfg"]
        for i in range(len(cfg["feats"])):
            yield dict(case, cfg=dict(cfg, feats=cfg["feats"][:i] + cfg["feats"][i + 1:]))
        if cfg["filters"]:
            yield dict(case, cfg=dict(cfg, filters=[]))
        for key in ("render_mode", "render_cfg", "reward"):
            if cfg[key]:
                yield dict(case, cfg=dict(cfg, **{key: 0}))
        if case["kind"] == "single":
            spec = case["spec"]
            for j in range(len(spec)):
                if len(spec) > 1:
                    yield dict(case, spec=spec[:j] + spec[j + 1:])
            for j, job in enumerate(spec):
                if len(job) > 1:
                    yield dict(case, spec=spec[:j] + [job[:-1]] + spec[j + 1:])


CHECK = C18
