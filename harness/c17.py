"""C17 — the residual graph hides only the decided and everything done.

A case (plain JSON):

  {"spec": I, "filters": [f..], "builder": b, "pre": [...], "rm_m": 0|1, "rm_j": 0|1,
   "picks": [[a, c], ...], "env": {...}?, "reset_at_end": 0|1, "picks2": [[a, c], ...]?, "manual_sub": 1?}

  builder   0 disjunctive, 1 agent-task, 2 agent-task with jobs, 3 complete agent-task (CmdC16's numbering)
  pre       observers created BEFORE the updater, on the fresh dispatcher: [0] create_or_get(Unscheduled..),
            [1, hm, hj] RemainingOperationsObserver, [2, ho, hm, hj] IsCompletedObserver with those feature types
            (so the updater either shares an IsCompletedObserver or creates its own)
  picks     one entry per dispatch: ready operation a % len(raw_ready), machine c % len(machines)
  env       when present the same history is played through a real SingleJobShopGraphEnv (first episode only;
            session.make_env; default updater options; `pre` is what the feature-observer configs create)

Everything is freshly constructed. With `reset_at_end` the dispatcher is reset after the first episode and the
state the updater / its observers are left in is tied to the model's (proved equal to the freshly constructed
one, properties/C12b.v); `picks2` then plays a second episode which is tied and judged like the first one
(the clauses of the property are per episode: "removals are permanent within an episode"). After EVERY dispatch:
  tie    : removed_nodes, the remaining typed edge set and the flags / counters of the updater's
           IsCompletedObserver == model (command 1701)
  oracle : the six clauses of coq/spec/ResidualSpec.v evaluated by the extracted boolean specification on the
           implementation's own graph and schedule rows (command 1702).
Zero-duration instances form a separate stream (counted in the distribution). The property is stated for
positive durations; the theorems of coq/properties/C17.v only need durations >= 0, so that stream is tied AND
judged by the oracle like the rest.
"""
from __future__ import annotations

from . import common, session
from .framework import Check, Failure
from .c16 import BUILDERS, enc_node, enc_edges

CLAUSES = ["completed-removed", "unscheduled-kept", "group-nodes", "monotone", "no-dangling-edges",
           "all-removed-at-end"]
# session.make_env's builder order -> this file's numbering
ENV_BUILDER = {0: 0, 1: 1, 2: 3, 3: 2}
ENV_BUILDER_INV = {v: k for k, v in ENV_BUILDER.items()}


def env_pre(features):
    """The dependency-relevant observers a feature-observer config list creates, in order."""
    pre = []
    for f in features:
        if f == 4:
            pre.append([1, 1, 1])
        elif f == 5:
            pre.append([2, 1, 1, 1])
    return pre


# building blocks by recipe step number (coq/model/CmdC16.v, recipe_step); step [0, node] = add_node
RECIPE_STEPS = {1: "add_operation_nodes", 2: "add_disjunctive_edges", 3: "add_conjunctive_edges",
                4: "add_source_sink_nodes", 5: "add_source_sink_edges", 6: "add_machine_nodes",
                7: "add_operation_machine_edges", 8: "add_machine_machine_edges",
                9: "add_same_job_operations_edges", 10: "add_job_nodes", 11: "add_operation_job_edges",
                12: "add_job_job_edges", 13: "add_global_node", 14: "add_machine_global_edges",
                15: "add_job_global_edges"}


def custom_recipe(num_machines, num_jobs, with_jobs, seed):
    """An agent-task-family graph assembled from the library's PUBLIC building blocks with the machine nodes
    (and job nodes) added in a shuffled order; JobShopGraph.get_machine_node / get_job_node look nodes up by
    machine_id / job_id, nothing requires id order. The recipe is executed by the real building blocks
    (build_from_recipe) and by the model's (runner command 1703): the custom stream is tied like the built-in
    builders; the THEOREMS of C17.v / C17b.v are about the four built-in builders only."""
    import random as _random

    r = _random.Random(seed)
    steps = [[1]]
    ms = list(range(num_machines))
    r.shuffle(ms)
    steps += [[0, [0, 2, m]] for m in ms]
    steps.append([7])
    if with_jobs:
        js = list(range(num_jobs))
        r.shuffle(js)
        steps += [[0, [0, 3, j]] for j in js]
        steps += [[11], [13], [14], [15]]
    else:
        steps += [[8], [9]]
    return steps


def build_from_recipe(instance, steps):
    from job_shop_lib import graphs
    from job_shop_lib.graphs import JobShopGraph, Node, NodeType
    from job_shop_lib.graphs import _build_agent_task_graph as _atg

    g = JobShopGraph(instance, add_operation_nodes=False)
    for st in steps:
        if st[0] == 0:
            _, t, *rest = st[1]
            if t == 2:
                g.add_node(Node(node_type=NodeType.MACHINE, machine_id=rest[0]))
            elif t == 3:
                g.add_node(Node(node_type=NodeType.JOB, job_id=rest[0]))
            elif t == 4:
                g.add_node(Node(node_type=NodeType.GLOBAL))
            else:
                raise ValueError(st)
        elif st[0] == 1:
            g.add_operation_nodes()
        else:
            name = RECIPE_STEPS[st[0]]
            (getattr(graphs, name, None) or getattr(_atg, name))(g)
    return g


def build_custom(instance, with_jobs, seed):
    return build_from_recipe(instance, custom_recipe(instance.num_machines, instance.num_jobs, with_jobs, seed))


BUILDER_NAMES = BUILDERS + ["custom agent-task graph (public building blocks, shuffled machine nodes)",
                            "custom complete agent-task graph (public building blocks, shuffled machine/job nodes)"]


def enc_iscomp(updater):
    from job_shop_lib.dispatching.feature_observers import FeatureType

    ic = updater._is_completed_observer  # pylint: disable=protected-access
    if ic is None:
        return []

    def flags(t):
        if t not in ic.features:
            return []
        return [int(v == 1) for v in ic.features[t].flatten().tolist()]

    return [[flags(FeatureType.MACHINES), flags(FeatureType.JOBS),
             [int(v) for v in ic.remaining_ops_per_machine.flatten().tolist()],
             [int(v) for v in ic.remaining_ops_per_job.flatten().tolist()]]]


def enc_state(updater):
    g = updater.job_shop_graph
    live = sorted(g.graph.nodes)
    flags = [bool(x) for x in g.removed_nodes]
    consistent = live == [i for i, r in enumerate(flags) if not r]
    return [flags, enc_edges(g), enc_iscomp(updater), consistent]


def rows_of(dispatcher):
    return [[[s.operation.job_id, s.operation.position_in_job, s.start_time, s.machine_id] for s in row]
            for row in dispatcher.schedule.schedule]


class C17(Check):
    pid = "C17"
    LATE_ATTACH = True
    RECIPE_TIE = True
    assumptions = [
        "durations >= 0 (the property says positive; the proofs do not need it), every operation has >= 1 "
        "machine, every job non-empty",
        "the graph is the output of one of the four built-in builders on the dispatcher's own instance "
        "(disjunctive graph: no machine id listed twice inside one operation, as in C16)",
        "dispatcher, observers and updater freshly constructed on the initial state; further episodes start with "
        "dispatcher.reset() (the theorems are per episode from the fresh state; reset = fresh is C12b's theorem)",
        "the updater is subscribed - by its constructor (subscribe=True) or by dispatcher.subscribe(updater) right "
        "after ResidualGraphUpdater(..., subscribe=False) - and nobody unsubscribes / re-orders the subscribers",
        "last clause: default options (both remove_completed_* True), every machine id below num_machines is "
        "listed by some operation, at least one operation",
    ]
    modelled_not_verified = [
        "modelled: remove_completed_operations, GraphUpdater.__init__/reset, ResidualGraphUpdater.__init__/"
        "_initialize_is_completed_observer_attribute/update/_remove_completed_machine_nodes/"
        "_remove_completed_job_nodes, JobShopGraph.remove_node/is_removed/get_machine_node/get_job_node, and the "
        "part of IsCompletedObserver / RemainingOperationsObserver / UnscheduledOperationsObserver the updater "
        "depends on (constructors with create-or-get, update, reset) - coq/model/Residual.v, Graph.v; tied by "
        "differential execution after every dispatch, not verified",
        "networkx contract (sampled): DiGraph.remove_node drops the incident edges, nx.isolates = nodes of "
        "degree 0, remove_nodes_from",
        "numpy contract (sampled): a[idx_list, 0] -= 1 / = v touch each listed row once; ndarray.flatten order; "
        "float32 1.0 == 1",
        "Dispatcher.completed_operations() is a set; its iteration order is arbitrary (the model proves the "
        "result independent of it: ResidualGraph.remove_all_perm)",
        "SingleJobShopGraphEnv is only used as a driver (its constructor's observer creation order, step -> "
        "dispatch); gymnasium itself is not modelled here",
    ]
    nontrivial_rule = ("a case is non-trivial when at least 3 operations are dispatched and at least one node "
                       "removal happens strictly before the last dispatch; distinct = distinct SHA1 of the case")

    def budget(self):
        return 3000 if self.tier == "quick" else 30000

    def search_budget(self):
        return 2500 if self.tier == "quick" else 20000

    # ---- generation ---------------------------------------------------------
    def gen_spec(self, rng, zero):
        r = rng.random()
        if r < 0.06:
            which = rng.randrange(3)
            if which == 0:
                spec = common.gen_instance(rng, max_jobs=1, max_machines=3, max_ops=5, zero=zero)
            elif which == 1:
                spec = common.gen_instance(rng, max_jobs=4, max_machines=1, max_ops=4, zero=zero)
            else:
                spec = [[[[rng.randrange(3)], rng.randint(1, 5)]]]
            self.note("inst_corner")
        else:
            spec = common.gen_instance(rng, max_jobs=5, max_machines=4, max_ops=5, zero=zero,
                                       regular=rng.random() < 0.2, big=rng.random() < 0.1)
        if not zero:
            spec = [[[ms, max(1, d)] for ms, d in job] for job in spec]
        elif not any(d == 0 for job in spec for _, d in job):
            j = rng.randrange(len(spec))
            spec[j][rng.randrange(len(spec[j]))][1] = 0
        if rng.random() < 0.04:
            # a machine id listed twice inside one operation (numpy index lists with a repeated row;
            # outside the disjunctive builder's scope, as in C16)
            j = rng.randrange(len(spec))
            p = rng.randrange(len(spec[j]))
            spec[j][p][0] = spec[j][p][0] + [spec[j][p][0][0]]
            self.note("inst_repeated_machine_id")
        if rng.random() < 0.25:
            shift = rng.randint(1, 2)
            cut = rng.randrange(common.num_machines_of(spec) + 1)
            spec = [[[[m + shift if m >= cut else m for m in ms], d] for ms, d in job] for job in spec]
        return spec

    def gen_pre(self, rng):
        r = rng.random()
        if r < 0.35:
            return []
        if r < 0.6:
            # an IsCompletedObserver exists already (shared when it has the features the updater needs)
            feats = rng.choice([[1, 1, 1], [0, 1, 1], [1, 1, 0], [1, 0, 1], [0, 1, 0], [0, 0, 1], [1, 0, 0]])
            pre = [[2] + feats]
        else:
            pre = []
            for _ in range(rng.randint(1, 3)):
                k = rng.randrange(3)
                if k == 0:
                    pre.append([0])
                elif k == 1:
                    pre.append([1] + rng.choice([[1, 1], [1, 0], [0, 1]]))
                else:
                    pre.append([2] + rng.choice([[1, 1, 1], [0, 1, 1], [1, 1, 0], [1, 0, 1], [0, 0, 1]]))
        return pre

    def gen_cases(self, rng, n):
        cases = []
        for _ in range(n):
            zero = rng.random() < 0.12
            spec = self.gen_spec(rng, zero)
            total = sum(len(j) for j in spec)
            fs = [rng.randrange(4) for _ in range(rng.randint(1, 2))] if rng.random() < 0.35 else []
            b = rng.randrange(4)
            custom = rng.random() < 0.08
            case = {"spec": spec, "filters": fs, "builder": b,
                    "picks": [[rng.randrange(1000), rng.randrange(1000)] for _ in range(total)]}
            if rng.random() < 0.15:
                case["picks"] = case["picks"][:rng.randint(0, total)]
            if custom:
                case["builder"] = rng.choice([4, 5])
                case["shuffle"] = rng.randrange(1 << 20)
            if rng.random() < 0.2 and not custom:
                feats = sorted(rng.sample(range(6), rng.randint(1, 3)))
                case["env"] = {"builder": ENV_BUILDER_INV[b], "features": feats,
                               "idle": int(rng.random() < 0.3), "padding": int(rng.random() < 0.7)}
                case["pre"] = env_pre(feats)
                case["rm_m"] = case["rm_j"] = 1
            else:
                case["pre"] = self.gen_pre(rng)
                r_attach = rng.random()
                if self.LATE_ATTACH and not custom and r_attach < 0.12:
                    case["attach_at"] = rng.randint(0, min(total, 5))
                if rng.random() < 0.2:
                    case["manual_sub"] = 1
                if "attach_at" not in case and rng.random() < 0.12:
                    # the same JobShopGraph object is also handed to a second updater on a second dispatcher of the
                    # instance; both dispatchers are reset before use (gymnasium's life cycle: reset() hands every
                    # updater its own copy of the graph it was built on) and the OTHER one plays a whole episode first
                    case["twin"] = 1
                    self.note("graph_shared_with_a_second_updater_on_another_dispatcher")
                if rng.random() < 0.55:
                    case["rm_m"] = case["rm_j"] = 1
                else:
                    case["rm_m"], case["rm_j"] = rng.choice([[1, 0], [0, 1], [0, 0]])
            case["reset_at_end"] = int(rng.random() < 0.3)
            if case["reset_at_end"] and "env" not in case and rng.random() < 0.7:
                # a second episode after dispatcher.reset(): the clauses are judged on it as well
                n2 = total if rng.random() < 0.6 else rng.randint(1, total)
                case["picks2"] = [[rng.randrange(1000), rng.randrange(1000)] for _ in range(n2)]
            cases.append(case)
            self.count(case)
        # wide instances: more than 256 operations on one machine / in one job (counters must not be narrow);
        # a few dispatches are enough to see whether a machine or job is declared finished too early
        for k in range(2 if self.tier == "quick" else 6):
            if k % 2 == 0:
                spec = [[[[0], rng.randint(1, 3)], [[0 if j % 3 else 1], rng.randint(1, 3)]] for j in range(129 + k)]
                spec[0][1][0] = [0]
                while sum(1 for job in spec for ms, _ in job if 0 in ms) < 258:
                    spec.append([[[0], 1]])
            else:
                spec = [[[[i % 2], rng.randint(1, 2)] for i in range(258 + k)], [[[1], 2], [[0], 1]]]
            # (builders whose edge count is quadratic in the wide dimension are kept away: agent-task links all
            # operations of a job pairwise, agent-task-with-jobs links all job nodes pairwise)
            case = {"spec": spec, "filters": [], "builder": rng.choice([1, 3] if k % 2 == 0 else [2, 3]),
                    "pre": [], "rm_m": 1, "rm_j": 1,
                    "picks": [[rng.randrange(1000), 0] for _ in range(rng.randint(4, 9))], "reset_at_end": 0}
            cases.append(case)
            self.count(case)
            self.note("wide_instance_more_than_256_operations_per_machine_or_job")
        return cases

    def count(self, case):
        st = common.instance_stats(case["spec"])
        spec = case["spec"]
        self.note("cases")
        self.note("builder_%d" % case["builder"])
        self.note("ops_total", st["ops"])
        self.note("dispatches", len(case["picks"]))
        if st["flexible"]:
            self.note("inst_flexible")
        if st["zero"]:
            self.note("inst_zero_duration")
        if len({len(j) for j in spec}) > 1:
            self.note("inst_irregular")
        if any(len({tuple(ms) for ms, _ in job}) < len(job) for job in spec):
            self.note("inst_recirculation")
        used = {m for job in spec for ms, _ in job for m in ms}
        if len(used) < st["machines"]:
            self.note("inst_unused_machine_id")
        if case["filters"]:
            self.note("with_filter")
        if "env" in case:
            self.note("through_env")
        self.note("options_default" if case["rm_m"] and case["rm_j"] else "options_non_default")
        if any(p[0] == 2 for p in case["pre"]):
            self.note("iscompleted_pre_existing")
        if case["pre"]:
            self.note("with_pre_existing_observers")
        if len(case["picks"]) < st["ops"]:
            self.note("partial_history")
        if "attach_at" in case:
            self.note("updater_attached_mid_history")
        if case.get("manual_sub"):
            self.note("constructed_unsubscribed_then_subscribed")
        if case.get("picks2"):
            self.note("second_episode")
            self.note("dispatches_second_episode", len(case["picks2"]))

    # ---- implementation -----------------------------------------------------
    def run_impl(self, case):
        common.import_impl()
        from job_shop_lib import graphs
        from job_shop_lib.dispatching import Dispatcher, UnscheduledOperationsObserver
        from job_shop_lib.dispatching.feature_observers import (FeatureType, IsCompletedObserver,
                                                                RemainingOperationsObserver)
        from job_shop_lib.graphs.graph_updaters import ResidualGraphUpdater

        instance = common.build_instance(case["spec"])
        env = None
        if "env" in case:
            env = session.make_env(instance, case["filters"], case["env"])
            dispatcher = env.dispatcher
            updater = env.graph_updater
            if not isinstance(updater, ResidualGraphUpdater):
                raise TypeError("the environment's default graph updater is not a ResidualGraphUpdater")
            env.reset()   # first episode: reset on the freshly constructed environment
        else:
            if case["builder"] >= 4:
                g = build_custom(instance, case["builder"] == 5, case.get("shuffle", 0))
            else:
                g = getattr(graphs, BUILDERS[case["builder"]])(instance)
            dispatcher = Dispatcher(instance, ready_operations_filter=session.make_filter(case["filters"]))

            def as_configured(fts):
                # a third of the cases pass the feature types the way a JSON / YAML configuration delivers them:
                # as plain strings (FeatureType is a str enum and the library accepts its values)
                return [str(t.value) for t in fts] if (len(case["picks"]) + len(case["spec"])) % 3 == 0 else fts

            for p in case["pre"]:
                if p[0] == 0:
                    dispatcher.create_or_get_observer(UnscheduledOperationsObserver)
                elif p[0] == 1:
                    fts = [t for t, h in zip((FeatureType.MACHINES, FeatureType.JOBS), p[1:]) if h]
                    RemainingOperationsObserver(dispatcher, feature_types=as_configured(fts))
                else:
                    fts = [t for t, h in zip((FeatureType.OPERATIONS, FeatureType.MACHINES, FeatureType.JOBS),
                                             p[1:]) if h]
                    IsCompletedObserver(dispatcher, feature_types=as_configured(fts))
            n_before = len(dispatcher.subscribers)
            if "attach_at" in case:
                # late subscription: constructed unsubscribed on the fresh dispatcher (its helper observers ARE
                # subscribed by the constructor), attached by dispatcher.subscribe(updater) after some dispatches
                updater = ResidualGraphUpdater(dispatcher, g, subscribe=False,
                                               remove_completed_machine_nodes=bool(case["rm_m"]),
                                               remove_completed_job_nodes=bool(case["rm_j"]))
                if updater in dispatcher.subscribers:
                    raise RuntimeError("subscribe=False subscribed the updater")
            elif case.get("manual_sub"):
                # the documented two-step form: construct unsubscribed, then subscribe explicitly. Subscribing is
                # `dispatcher.subscribers.append(self)` in both forms (DispatcherObserver.__init__), so the model's
                # construction is the same; what must not change is that the helper observers are subscribed FIRST.
                updater = ResidualGraphUpdater(dispatcher, g, subscribe=False,
                                               remove_completed_machine_nodes=bool(case["rm_m"]),
                                               remove_completed_job_nodes=bool(case["rm_j"]))
                if updater in dispatcher.subscribers:
                    raise RuntimeError("subscribe=False subscribed the updater")
                dispatcher.subscribe(updater)
            else:
                updater = ResidualGraphUpdater(dispatcher, g, remove_completed_machine_nodes=bool(case["rm_m"]),
                                               remove_completed_job_nodes=bool(case["rm_j"]))
            if "attach_at" not in case and (dispatcher.subscribers[-1] is not updater
                                            or len(dispatcher.subscribers) < n_before + 1):
                raise RuntimeError("the updater did not subscribe itself last")
        if case.get("twin") and env is None and "attach_at" not in case:
            d2 = Dispatcher(instance)
            u2 = ResidualGraphUpdater(d2, g)
            d2.reset()
            dispatcher.reset()
            while not d2.schedule.is_complete():
                op2 = d2.raw_ready_operations()[0]
                d2.dispatch(op2, op2.machines[0])
            del u2
        graph = updater.job_shop_graph
        nodes = [enc_node(n) for n in graph.nodes]
        op_ids_ok = all(n.operation.operation_id == n.node_id for n in graph.nodes
                        if n.node_type.value == 1)
        state0 = enc_state(updater)

        attached = ["attach_at" not in case]

        def attach():
            if not attached[0]:
                dispatcher.subscribe(updater)
                attached[0] = True

        def play(picks):
            out = []
            for a, c in picks:
                ready = dispatcher.raw_ready_operations()
                if not ready:
                    break
                if len(out) >= case.get("attach_at", 0):
                    attach()
                op = ready[a % len(ready)]
                m = op.machines[c % len(op.machines)]
                if env is not None:
                    env.step((op.job_id, m))
                else:
                    dispatcher.dispatch(op, m)
                completed = dispatcher.completed_operations()
                out.append([[op.job_id, op.position_in_job, m], rows_of(dispatcher), enc_state(updater),
                            sorted([o.job_id, o.position_in_job] for o in completed),
                            bool(dispatcher.schedule.is_complete())])
            return out

        steps = play(case["picks"])
        attach()
        same_graph = updater.job_shop_graph is graph
        after_reset = []
        if case.get("reset_at_end") and env is None:
            dispatcher.reset()
            after_reset = [enc_state(updater), play(case.get("picks2", []))]
        return common.norm([nodes, state0, steps, [op_ids_ok, same_graph], after_reset])

    # ---- model --------------------------------------------------------------
    def model_requests(self, case, obs):
        nodes, state0, steps, _, after_reset = obs
        spec = case["spec"]
        k = min(case.get("attach_at", 0), len(steps))
        events = [[2 if i < k else 0] + st[0] for i, st in enumerate(steps)]
        reqs = []
        if after_reset:
            events.append([1])
            events += [[0] + st[0] for st in after_reset[1]]
            # second episode: the clauses start again from the graph dispatcher.reset() left behind
            reqs.append((1702, [spec, case["filters"], nodes, after_reset[0][0],
                                [[st[1], st[2][0], st[2][1]] for st in after_reset[1]]]))
        # (a late-attached updater is judged from its first update on; until then its graph is the one it was built on)
        first = (1702, [spec, case["filters"], nodes, state0[0], [[st[1], st[2][0], st[2][1]] for st in steps[k:]]])
        if case["builder"] >= 4:
            if self.RECIPE_TIE:
                recipe = custom_recipe(common.num_machines_of(spec), len(spec), case["builder"] == 5,
                                       case.get("shuffle", 0))
                return [(1703, [spec, case["filters"], recipe, case["pre"], case["rm_m"], case["rm_j"], events]),
                        first] + reqs
            # custom graph without a model of its builder: the layout is kept with a placeholder run on builder 1
            return [(1701, [spec, case["filters"], 1, [], 1, 1, []]), first] + reqs
        return [
            (1701, [spec, case["filters"], case["builder"], case["pre"], case["rm_m"], case["rm_j"], events]),
            first,
        ] + reqs

    # ---- judgement ----------------------------------------------------------
    def judge(self, case, obs, outs):
        fails = []
        nodes, state0, steps, (op_ids_ok, same_graph), after_reset = obs
        model, oracle = outs[0], outs[1]
        spec = case["spec"]
        custom = case["builder"] >= 4 and not self.RECIPE_TIE
        if case["builder"] >= 4 and self.RECIPE_TIE:
            self.note("custom_graph_tied_through_recipe")
        if not op_ids_ok:
            fails.append(Failure("oracle", "op-node-id-is-operation-id",
                                 "an operation node's id differs from operation.operation_id"))
        if not custom:
            if model[0] != 1:
                return [Failure("tie", "builder-raises", "the model's builder raised on this instance")]
            self.judge_tie(obs, model, fails)
        else:
            self.note("oracle_only_custom_graph")
            for where, st in [("initial state", state0)] + [(f"after dispatch #{i}", x[2]) for i, x in enumerate(steps)]:
                if not st[3]:
                    fails.append(Failure("oracle", "digraph-node-set",
                                         f"{where}: the DiGraph's node set is not the set of non-removed node ids"))
                    break

        # oracle: the extracted specification on the implementation's graph and rows
        (positive, nonempty, nodup, all_used), clauses = oracle
        in_scope = bool(nonempty and (nodup or case["builder"] != 0))
        default_opts = bool(case["rm_m"] and case["rm_j"])
        k = min(case.get("attach_at", 0), len(steps))
        for i, st in enumerate(steps[:k]):
            if st[2][0] != state0[0] or st[2][1] != state0[1]:
                fails.append(Failure("oracle", "detached-updater-changed-its-graph",
                                     f"dispatch #{i}: the updater is not subscribed yet but its graph changed"))
                break
        episodes = [("" if not k else f"(updater attached after {k} dispatches) ", steps[k:], clauses)]
        if after_reset and len(outs) > 2:
            episodes.append(("episode 2 (after dispatcher.reset()), ", after_reset[1], outs[2][1]))
        for ep, esteps, eclauses in episodes:
            self.judge_episode(case, nodes, ep, esteps, eclauses, in_scope, default_opts, all_used, fails)
        return fails

    def judge_tie(self, obs, model, fails):
        nodes, state0, steps, (op_ids_ok, same_graph), after_reset = obs
        _, m0, msteps = model
        if not same_graph:
            fails.append(Failure("tie", "graph-object-replaced", "job_shop_graph was replaced within the episode"))

        def tie_state(where, impl, mod):
            for k, lab in ((0, "removed_nodes"), (1, "edges"), (2, "is-completed-observer")):
                if impl[k] != mod[k]:
                    fails.append(Failure("tie", lab, f"{where}: {lab} differ between implementation and model",
                                         expected=mod[k], observed=impl[k]))
                    return False
            if not impl[3]:
                fails.append(Failure("oracle", "digraph-node-set",
                                     f"{where}: the DiGraph's node set is not the set of non-removed node ids"))
            return True

        tie_state("initial state", state0, m0)
        for i, (st, ms) in enumerate(zip(steps, msteps)):
            if ms[0] != 1:
                fails.append(Failure("tie", "dispatch-accepted", f"dispatch #{i} {st[0]} rejected by the model"))
                break
            if not tie_state(f"after dispatch #{i} {st[0]}", st[2], ms[1]):
                break
        if after_reset:
            steps2 = after_reset[1]
            if len(msteps) != len(steps) + 1 + len(steps2) or after_reset[0][:3] != msteps[len(steps)][1]:
                # the model's reset is proved to restore the freshly constructed state (C12b): a disagreement
                # here means the next episode does not start from the state C17's clauses are stated for
                self.note("secondary_mismatch:reset")
                fails.append(Failure("tie", "state-after-reset",
                                     "after dispatcher.reset() the updater / its observers differ from the model's "
                                     "(= freshly constructed) state",
                                     expected=msteps[len(steps)][1] if len(msteps) > len(steps) else None,
                                     observed=after_reset[0][:3]))
            else:
                self.note("reset_states_compared")
                for i, (st, ms) in enumerate(zip(steps2, msteps[len(steps) + 1:])):
                    if ms[0] != 1:
                        fails.append(Failure("tie", "dispatch-accepted",
                                             f"episode 2 dispatch #{i} {st[0]} rejected by the model"))
                        break
                    if not tie_state(f"episode 2, after dispatch #{i} {st[0]}", st[2], ms[1]):
                        break


    def judge_episode(self, case, nodes, ep, steps, clauses, in_scope, default_opts, all_used, fails):
        for i, (st, cl) in enumerate(zip(steps, clauses)):
            complete, feasible = bool(cl[6]), bool(cl[7])
            if not feasible:
                fails.append(Failure("tie", "schedule-not-feasible", f"{ep}dispatch #{i}: rows not feasible (C01)"))
                break
            if complete != bool(st[4]):
                fails.append(Failure("tie", "is-complete",
                                     f"{ep}dispatch #{i}: Schedule.is_complete() != specification"))
            for k, name in enumerate(CLAUSES):
                if k == 5 and not (complete and default_opts and all_used):
                    continue
                if cl[k]:
                    continue
                if not in_scope:
                    self.note("out_of_scope:" + name)
                    continue
                fails.append(Failure(
                    "oracle", name,
                    f"{ep}after dispatch #{i} {st[0]} the clause '{name}' fails on the implementation's graph "
                    f"(builder {BUILDER_NAMES[case['builder']]})",
                    observed={"rows": st[1], "removed": st[2][0], "edges": st[2][1], "completed": st[3],
                              "nodes": nodes}))
                break

    def nontrivial(self, case, obs):
        steps = obs[2]
        if len(steps) < 3:
            return False
        return any(any(st[2][0]) for st in steps[:-1])

    def summarize(self, case):
        return case

    def shrink_candidates(self, case):
        spec = case["spec"]

        def fix(c):
            total = sum(len(j) for j in c["spec"])
            c["picks"] = c["picks"][:total]
            return c

        if case.get("picks2"):
            yield dict(case, picks2=case["picks2"][:-1])
        elif case.get("reset_at_end"):
            yield {k: v for k, v in case.items() if k != "picks2"} | {"reset_at_end": 0}
        if case["picks"]:
            yield dict(case, picks=case["picks"][:-1])
        if case["filters"]:
            yield dict(case, filters=[])
        if case.get("attach_at"):
            yield dict(case, attach_at=case["attach_at"] - 1)
        if case.get("manual_sub"):
            yield {k: v for k, v in case.items() if k != "manual_sub"}
        if case.get("twin"):
            yield {k: v for k, v in case.items() if k != "twin"}
        if case["pre"] and "env" not in case:
            yield dict(case, pre=case["pre"][:-1])
            yield dict(case, pre=case["pre"][1:])
        for j in range(len(spec)):
            if len(spec) > 1:
                yield fix(dict(case, spec=spec[:j] + spec[j + 1:]))
        for j, job in enumerate(spec):
            if len(job) > 1:
                yield fix(dict(case, spec=spec[:j] + [job[:-1]] + spec[j + 1:]))
        for j, job in enumerate(spec):
            for p, (ms, d) in enumerate(job):
                if len(ms) > 1:
                    s2 = [[list(o) for o in jb] for jb in spec]
                    s2[j][p] = [ms[:-1], d]
                    yield fix(dict(case, spec=s2))
                if d > 1:
                    s2 = [[list(o) for o in jb] for jb in spec]
                    s2[j][p] = [ms, 1]
                    yield fix(dict(case, spec=s2))
        if any(p != [0, 0] for p in case["picks"]):
            yield dict(case, picks=[[0, 0]] * len(case["picks"]))


CHECK = C17
