"""Entry point: python -m harness.main Cxx [--tier quick|thorough] [--replay file]"""
import argparse
import importlib
import os
import sys

from . import framework


def main():
    ap = argparse.ArgumentParser()
    ap.add_argument("property")
    ap.add_argument("--tier", default=os.environ.get("VERIF_TIER", "quick"),
                    choices=["quick", "thorough"])
    ap.add_argument("--replay", default=None)
    ap.add_argument("--seed", type=int, default=int(os.environ.get("VERIF_SEED", "0") or 0))
    a = ap.parse_args()
    pid = a.property.upper()
    mod = importlib.import_module(f"harness.{pid.lower()}")
    check = mod.CHECK(a.tier, a.seed)
    sys.exit(framework.run_check(check, replay=a.replay))


if __name__ == "__main__":
    main()
