"""C02 — start times are forced, bookkeeping matches, histories replay."""
from . import common, session
from .framework import Failure
from .sessioncheck import SessionCheck


class C02(SessionCheck):
    pid = "C02"
    inst_kwargs = dict(allow_empty_jobs=True, huge=True)
    gen_kwargs = dict(p_invalid=0.1, p_query=0.25, p_reset=0.05, p_snapshot=1.0, p_obs=0.03,
                      start_observers_choices=[0], obs_kinds=(0, 2, 3), p_env=0.15)
    assumptions = ["valid instance: durations >= 0", "requests name operations of the dispatcher's own instance"]
    modelled_not_verified = [
        "modelled: Dispatcher.dispatch/start_time/_update_tracking_attributes/reset, Schedule.add/makespan/"
        "num_scheduled_operations, HistoryObserver, the dispatcher part of SingleJobShopGraphEnv.step "
        "(coq/model/World.v, Observers.v) - tied by differential execution of event scripts",
        "the replay through create_gantt_chart_frames' plot-function path is exercised by the C20 check"]

    def run_impl(self, case):
        sess = session.ImplSession(case["spec"], case["filters"], case.get("env"))
        outs = sess.run(case["events"])
        # replay clause: the recorded history re-dispatched on (a) a fresh dispatcher, (b) a dispatcher that
        # went through an unrelated history with queries and was then reset -> identical schedule
        final_rows = session.enc_dstate(sess.dispatcher)[3]
        hist = None
        if sess.env is None:
            hobs = [o for o in sess.objs if type(o).__name__ == "HistoryObserver"
                    and o in sess.dispatcher.subscribers]
            if hobs and self.hist_valid(case, outs, sess.objs.index(hobs[0])):
                hist = [session.enc_sop(s) for s in hobs[0].history]
        replays = []
        if hist is not None:
            from job_shop_lib.dispatching import Dispatcher

            inst = common.build_instance(case["spec"])
            d1 = Dispatcher(inst, ready_operations_filter=session.make_filter(case["filters"]))
            for j, p, _, m in hist:
                d1.dispatch(inst.jobs[j][p], m)
            replays.append(session.enc_dstate(d1))
            # unrelated prefix, queries, reset, then replay
            d2 = Dispatcher(inst, ready_operations_filter=session.make_filter(case["filters"]))
            for _ in range(3):
                ready = d2.raw_ready_operations()
                if not ready:
                    break
                op = ready[-1]
                d2.dispatch(op, op.machines[-1])
                d2.current_time()
                d2.uncompleted_operations()
            d2.reset()
            for j, p, _, m in hist:
                d2.dispatch(inst.jobs[j][p], m)
            replays.append(session.enc_dstate(d2))
            # the recorded list itself (what `observer.history` handed out, not a copy), replayed on the very
            # dispatcher it was recorded on after dispatcher.reset()
            recorded = hobs[0].history
            d0 = sess.dispatcher
            d0.reset()
            try:
                for s in recorded:
                    d0.dispatch(s.operation, s.machine_id)
            except Exception:  # pylint: disable=broad-except
                pass
            replays.append(session.enc_dstate(d0))
            # the library's own replay of a recorded history (GIF / video creation re-dispatches it on a
            # fresh dispatcher and hands the growing schedule to the plot function); recorded BEFORE the reset
            if hist:     # (an empty history is rejected by create_gantt_chart_frames: nothing to replay)
                replays.append(self.replay_through_frames(inst, hist))
                # the same (operation, machine) sequence carried by entries with LATER start times (taken from a
                # schedule that is not left-shifted): the replay depends on the sequence only
                replays.append(self.replay_through_frames(inst, [[j, p, st + 3 + k, m]
                                                                 for k, (j, p, st, m) in enumerate(hist)]))
        return {"outs": outs, "hist": hist, "replays": common.norm(replays), "final": common.norm(final_rows)}

    @staticmethod
    def replay_through_frames(inst, hist):
        import os
        import shutil
        import tempfile

        from matplotlib.figure import Figure
        from job_shop_lib import ScheduledOperation
        from job_shop_lib.visualization import create_gantt_chart_frames

        seen = []

        def plot(schedule, makespan=None, available_operations=None, current_time=None):
            seen.append([[[s.operation.job_id, s.operation.position_in_job, s.start_time, s.machine_id]
                          for s in row] for row in schedule.schedule])
            fig = Figure()
            fig.savefig = lambda path, **kw: None
            return fig

        if not hist:
            return [[], [], [], []]
        tmp = tempfile.mkdtemp(prefix="c02-", dir=os.path.join(common.VERIF, ".scratch"))
        try:
            history = [ScheduledOperation(inst.jobs[j][p], st, m) for j, p, st, m in hist]
            create_gantt_chart_frames(tmp, inst, None, plot, False, history)
        finally:
            shutil.rmtree(tmp, ignore_errors=True)
        return [[], [], [], seen[-1] if len(seen) == len(hist) else [["frames", len(seen)]]]

    def hist_valid(self, case, outs, idx):
        """history observer idx subscribed before the first dispatch / since the last reset, never unsubscribed"""
        alive = False
        for ev, o in zip(case["events"], outs):
            if ev[0] in (3, 6) and o and o[0] == 0 and o[1] == idx:
                alive = True
            elif ev[0] in (4, 5) and ev[1] == idx:
                return False
            elif ev[0] in (0, 8) and o and o[0] == 0 and not alive:
                return False
        return alive

    def model_requests(self, case, obs):
        return super().model_requests(case, obs["outs"])

    def extra_requests(self, case, outs):
        snaps = [o[0][3] for _, o in self.snapshots(case, outs)]
        rows = self.rows_before(case, outs)
        forced = []
        for i, (ev, o) in enumerate(zip(case["events"], outs)):
            if ev[0] in (0, 8) and o and o[0] == 0 and rows[i] is not None and i + 1 < len(outs) \
                    and case["events"][i + 1][0] == 7:
                new = self.new_sop(rows[i], outs[i + 1][0][3])
                if new is not None:
                    forced.append([rows[i], new[0], new[1], new[3]])
        return [(5, [case["spec"], snaps]), (6, [case["spec"], forced])]

    @staticmethod
    def new_sop(before, after):
        for rb, ra in zip(before, after):
            if len(ra) == len(rb) + 1 and ra[:-1] == rb:
                return ra[-1]
        return None

    def judge(self, case, obs, outs):
        model_out, _clauses, tracking, forced = outs
        io = obs["outs"]
        fails = self.tie_failures(case, io, model_out) + self.reset_failures(case, io)
        # bookkeeping = from-scratch recomputation on the implementation's own rows
        for (i, o), want in zip(self.snapshots(case, io), tracking):
            d_impl = o[0]
            if d_impl != want[0]:
                fails.append(Failure("oracle", "tracking",
                                     f"snapshot #{i}: tracking vectors differ from those implied by the schedule rows",
                                     expected=want[0][:3], observed=d_impl[:3]))
            if o[3] != want[1]:
                fails.append(Failure("oracle", "count", f"snapshot #{i}: num_scheduled_operations={o[3]} but the "
                                     f"rows hold {want[1]} operations"))
            if o[2] != want[2]:
                fails.append(Failure("oracle", "makespan", f"snapshot #{i}: makespan()={o[2]} but the largest end "
                                     f"time in the rows is {want[2]}"))
        # forced starts
        rows = self.rows_before(case, io)
        k = 0
        for i, (ev, o) in enumerate(zip(case["events"], io)):
            if ev[0] in (0, 8) and o and o[0] == 0 and rows[i] is not None and i + 1 < len(io) \
                    and case["events"][i + 1][0] == 7:
                after = io[i + 1][0][3]
                new = self.new_sop(rows[i], after)
                if new is None:
                    fails.append(Failure("oracle", "append-only",
                                         f"event #{i}: an accepted dispatch did not append exactly one operation "
                                         f"to exactly one row", expected=rows[i], observed=after))
                    continue
                want = forced[k]
                k += 1
                if ev[0] == 0 and ev[3] and new[3] != ev[3][0]:
                    fails.append(Failure("oracle", "chosen-machine",
                                         f"event #{i}: dispatch({ev[1:3]}, machine {ev[3][0]}) was accepted but the "
                                         f"operation was put on machine {new[3]}", expected=ev[3][0], observed=new[3]))
                if ev[0] == 8 and ev[2] != -1 and new[3] != ev[2]:
                    fails.append(Failure("oracle", "chosen-machine",
                                         f"event #{i}: env.step(({ev[1]}, {ev[2]})) was accepted but the operation "
                                         f"was put on machine {new[3]}", expected=ev[2], observed=new[3]))
                if new[2] != want:
                    fails.append(Failure("oracle", "start-forced",
                                         f"event #{i}: operation {new[:2]} on machine {new[3]} starts at {new[2]}, "
                                         f"forced start is {want}", expected=want, observed=new[2]))
        # replay
        if obs["hist"] is not None:
            for which, rep in zip(("fresh", "reset", "same (reset, recorded list object)",
                                   "fresh (inside create_gantt_chart_frames)",
                                   "fresh (inside create_gantt_chart_frames, entries carrying later start times)"),
                                  obs["replays"]):
                if rep[3] != obs["final"]:
                    fails.append(Failure("oracle", "replay-" + which,
                                         f"re-dispatching the recorded history on a {which} dispatcher does not "
                                         f"reproduce the schedule", expected=obs["final"], observed=rep[3]))
        return fails

    def nontrivial(self, case, obs):
        return super().nontrivial(case, obs["outs"])


CHECK = C02
