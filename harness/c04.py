"""C04 — dispatching-rule solvers always finish and follow their rule.

Relational tie: the implementation's selection at every step must lie in the
best-set of the rule's documented criterion (decided by the boolean twins
extracted from coq/spec/RulesSpec.v on the model's dispatcher state), the model
is then advanced with the implementation's own choice. A harmless change of
tie-breaking among equally good operations therefore breaks nothing.

Two kinds of cases:
  solve    DispatchingRuleSolver(rule, chooser, filter)(instance) through the real
           BaseSolver.__call__ with recording wrappers around the rule and the
           chooser callables; a second call under a scripted clock.
  session  a dispatcher driven along a random history (operations drawn from the
           RAW ready list), with rules / scorers / tie-breaker rules invoked at
           random states, scorers first invoked mid-history, user-made
           DurationObservers, resets.
"""
from __future__ import annotations

import random as _random

from . import common
from .framework import Check, Failure
from .sessioncheck import CLAUSES

RULE_NAMES = ["shortest_processing_time", "first_come_first_served", "most_work_remaining",
              "most_operations_remaining", "random", "observer_based_most_work_remaining"]
RULE_SUB = ["rule:spt", "rule:fcfs", "rule:mwkr", "rule:mopnr", "rule:random", "mwkr-agree"]
CHOOSER_NAMES = ["first", "random"]
FILTER_NAMES = ["dominated_operations", "non_immediate_machines", "non_idle_machines",
                "non_immediate_operations"]
SFUN_NAMES = ["spt_score", "fcfs_score", "mopnr_score", "mwkr_scorer", "random_score"]


class StepLimit(Exception):
    pass


def key(op):
    return [op.job_id, op.position_in_job]


def rows_of(schedule):
    return [[[s.operation.job_id, s.operation.position_in_job, s.start_time, s.machine_id] for s in row]
            for row in schedule.schedule]


def exn(e):
    if isinstance(e, StepLimit):
        return 8
    if isinstance(e, ValueError):
        return 4
    return common.exn_code(e)


def make_filter_arg(filters):
    """what is passed as ready_operations_filter= (None, one name, or a list of names)"""
    if not filters:
        return None
    names = [FILTER_NAMES[f] for f in filters]
    return names[0] if len(names) == 1 else names


def rule_callable(rule, shared=False):
    """rule 5: the observer-based rule - a fresh scorer, or the module-level rule object whose single scorer is
    shared by every dispatcher it is ever called with"""
    from job_shop_lib.dispatching.rules import (dispatching_rule_factory, score_based_rule,
                                                MostWorkRemainingScorer, observer_based_most_work_remaining_rule)
    if rule < 5:
        return dispatching_rule_factory(RULE_NAMES[rule])
    if shared:
        return observer_based_most_work_remaining_rule
    return score_based_rule(MostWorkRemainingScorer())


# --------------------------------------------------------------------------- solve

def run_solve(case):
    common.import_impl()
    from job_shop_lib.dispatching.rules import DispatchingRuleSolver, machine_chooser_factory
    import job_shop_lib._base_solver as base_solver

    spec = case["spec"]
    n_ops = sum(len(j) for j in spec)

    def one_run(clock, warm_k=None):
        instance = common.build_instance(spec)
        steps = []
        inner_rule = rule_callable(case["rule"], shared=case["seed"] % 2 == 1)
        inner_chooser = machine_chooser_factory(CHOOSER_NAMES[case["chooser"]])

        def rule(dispatcher):
            if len(steps) > n_ops + 3:
                raise StepLimit()
            avail = [key(o) for o in dispatcher.available_operations()]
            op = inner_rule(dispatcher)
            steps.append([avail, key(op), None, list(op.machines)])
            return op

        def chooser(dispatcher, operation):
            m = inner_chooser(dispatcher, operation)
            steps[-1][2] = int(m)
            return m

        kwargs = {}
        if case["filters"] != "default":
            kwargs["ready_operations_filter"] = make_filter_arg(case["filters"])
        solver = DispatchingRuleSolver(dispatching_rule=rule, machine_chooser=chooser, **kwargs)
        _random.seed(case["seed"])
        real_time = base_solver.time
        if clock is not None:
            ticks = list(clock)

            class FakeTime:  # pylint: disable=too-few-public-methods
                @staticmethod
                def perf_counter():
                    return ticks.pop(0)

            base_solver.time = FakeTime
        try:
            try:
                if warm_k is not None:
                    # solve(instance, dispatcher) with a dispatcher the caller has already used: its first warm_k
                    # operations were dispatched by the solver's own step() (so the whole run is a solver run)
                    from job_shop_lib.dispatching import Dispatcher

                    d = Dispatcher(instance, ready_operations_filter=solver.ready_operations_filter)
                    for _ in range(min(warm_k, n_ops)):
                        solver.step(d)
                    schedule = solver.solve(instance, d)
                else:
                    schedule = solver(instance)
                out = {"exn": 0, "rows": rows_of(schedule), "complete": int(schedule.is_complete()),
                       "elapsed": schedule.metadata.get("elapsed_time"),
                       "solved_by": [ord(c) for c in str(schedule.metadata.get("solved_by"))],
                       "class": [ord(c) for c in type(solver).__name__]}
            except Exception as e:  # pylint: disable=broad-except
                out = {"exn": exn(e), "what": f"{type(e).__name__}: {e}"[:200]}
        finally:
            base_solver.time = real_time
        out["steps"] = [s for s in steps if s[2] is not None]
        out["n_rule_calls"] = len(steps)
        return out

    real = one_run(None)
    if real["exn"] == 0:
        e = real["elapsed"]
        real["elapsed_sign"] = -1 if e < 0 else (0 if e == 0 else 1)
        real["elapsed"] = None
    fake = one_run(case["clock"])
    out = {"real": real, "fake": fake}
    if case.get("warm_k") is not None:
        out["warm"] = one_run(None, case["warm_k"])
    if case["seed"] % 5 == 0:
        out["nested"] = nested_call(case)
    return out


def nested_call(case):
    """A solver whose solve() obtains its schedule by CALLING another solver (a best-of-rules portfolio): the
    schedule it returns through BaseSolver.__call__ must carry ITS class name and ITS elapsed time."""
    import time as _time

    from job_shop_lib.dispatching.rules import DispatchingRuleSolver

    class PortfolioSolver(DispatchingRuleSolver):
        def solve(self, instance, dispatcher=None):
            best = None
            for rule in ("most_work_remaining", "shortest_processing_time"):
                candidate = DispatchingRuleSolver(dispatching_rule=rule)(instance)
                if best is None or candidate.makespan() < best.makespan():
                    best = candidate
            _time.sleep(0.002)
            return best

    try:
        schedule = PortfolioSolver()(common.build_instance(case["spec"]))
    except Exception as e:  # pylint: disable=broad-except
        return {"exn": exn(e)}
    inner_elapsed = 0.0015   # (the 2 ms sleep, with a margin for clock granularity)
    return {"exn": 0, "solved_by_ok": int(schedule.metadata.get("solved_by") == "PortfolioSolver"),
            "elapsed_ok": int(isinstance(schedule.metadata.get("elapsed_time"), float)
                              and schedule.metadata["elapsed_time"] >= inner_elapsed)}


# --------------------------------------------------------------------------- session

class ImplRuleSession:
    def __init__(self, spec, filters):
        common.import_impl()
        from job_shop_lib.dispatching import Dispatcher
        from . import session

        self.instance = common.build_instance(spec)
        self.dispatcher = Dispatcher(self.instance, ready_operations_filter=session.make_filter(filters))
        self.store = []          # scorer objects and observers, in creation order
        self.scorers = []        # store index of the k-th scorer

    def sync_store(self):
        for o in self.dispatcher.subscribers:
            if not any(o is x for x in self.store):
                self.store.append(o)

    def sfun(self, code, rec):
        from job_shop_lib.dispatching import rules as R

        c = code[0]
        if c == 3:
            f = self.store[self.scorers[code[1]]]
        else:
            f = [R.shortest_processing_time_score, R.first_come_first_served_score,
                 R.most_operations_remaining_score, None, R.random_score][c]

        def wrapped(dispatcher):
            v = f(dispatcher)
            rec.append(common.norm(list(v)))
            return v

        return wrapped

    def run(self, ev):
        from job_shop_lib.dispatching import rules as R
        from job_shop_lib.dispatching.feature_observers import DurationObserver, FeatureType

        d = self.dispatcher
        t = ev[0]
        try:
            if t == 0:
                d.dispatch(self.instance.jobs[ev[1]][ev[2]], ev[3])
                out = [0, []]
            elif t == 1:
                d.reset()
                out = [0, []]
            elif t == 2:
                self.store.append(R.MostWorkRemainingScorer())
                self.scorers.append(len(self.store) - 1)
                out = [0, len(self.store) - 1]
            elif t == 3:
                DurationObserver(d, feature_types=[FeatureType.JOBS] if ev[1] else [FeatureType.OPERATIONS])
                self.sync_store()
                out = [0, len(self.store) - 1]
            elif t == 4:
                v = self.store[self.scorers[ev[1]]](d)
                out = [0, common.norm(list(v))]
            elif t == 5:
                op = R.dispatching_rule_factory(RULE_NAMES[ev[1]])(d)
                out = [0, key(op)]
            elif t == 6:
                op = R.score_based_rule(self.store[self.scorers[ev[1]]])(d)
                direct = R.most_work_remaining_rule(d)
                out = [0, key(op), key(direct)]
            elif t == 7:
                rec = []
                fs = [self.sfun(c, rec) for c in ev[1]]
                _random.seed(ev[2])
                try:
                    op = R.score_based_rule_with_tie_breaker(fs)(d)
                    out = [0, key(op), rec]
                except Exception as e:  # pylint: disable=broad-except
                    out = [exn(e), [], rec]
            elif t == 8:
                rec = []
                _random.seed(ev[2])
                try:
                    op = R.score_based_rule(self.sfun(ev[1], rec))(d)
                    out = [0, key(op), rec]
                except Exception as e:  # pylint: disable=broad-except
                    out = [exn(e), [], rec]
            elif t == 10:
                # the k-th scorer object is used on ANOTHER dispatcher of the same instance in between (two runs
                # stepped in lockstep, a scorer shared by two solvers); whatever it does there, this dispatcher
                # and its observers are what they were; the scorer fetches its observers again at its next call
                # here (model: scorer_forget). Answered with a snapshot
                from job_shop_lib.dispatching import Dispatcher

                other = Dispatcher(self.instance)
                ready = other.raw_ready_operations()
                if ready and ev[2]:
                    other.dispatch(ready[0], ready[0].machines[0])
                self.store[self.scorers[ev[1]]](other)
                out = self.snapshot()
            else:
                out = self.snapshot()
        except Exception as e:  # pylint: disable=broad-except
            out = [exn(e)]
        self.sync_store()
        return out

    def snapshot(self):
        from job_shop_lib.dispatching.feature_observers import (DurationObserver, IsReadyObserver,
                                                                FeatureType)
        d = self.dispatcher
        objs = []
        for o in self.store:
            if isinstance(o, (DurationObserver, IsReadyObserver)):
                has = FeatureType.JOBS in o.features
                jf = common.norm(o.features[FeatureType.JOBS][:, 0]) if has else []
                objs.append([0 if isinstance(o, DurationObserver) else 1, int(has), jf])
            else:
                objs.append([2])
        subs = [next(i for i, x in enumerate(self.store) if x is s) for s in d.subscribers]
        return [[key(o) for o in d.available_operations()], subs, objs, rows_of(d.schedule)]


def run_session(case):
    s = ImplRuleSession(case["spec"], case["filters"])
    return [s.run(ev) for ev in case["events"]]


def model_events(case, obs):
    """the model's event list: scorer ordinals become store indices, the implementation's selections (and the
    vectors random_score returned) are filled in"""
    out = []
    idx = []
    for ev, o in zip(case["events"], obs):
        t = ev[0]
        sel = o[1] if len(o) > 1 and isinstance(o[1], list) and len(o[1]) == 2 else [0, 0]
        if t == 2:
            idx.append(o[1] if len(o) > 1 else 0)
            out.append([2])
        elif t == 4:
            out.append([4, idx[ev[1]]])
        elif t == 5:
            out.append([5, ev[1], sel])
        elif t == 6:
            out.append([6, idx[ev[1]], sel])
        elif t == 10:
            out.append([10, idx[ev[1]]])
        elif t in (7, 8):
            codes = ev[1] if t == 7 else [ev[1]]
            rec = o[2] if len(o) > 2 else []
            sf = []
            for i, c in enumerate(codes):
                if c[0] == 4:
                    sf.append([5, rec[i] if i < len(rec) else [0] * len(case["spec"])])
                elif c[0] == 3:
                    sf.append([3, idx[c[1]]])
                else:
                    sf.append(list(c))
            out.append([t, sf if t == 7 else sf[0], sel])
        else:
            out.append(list(ev))
    return out


# --------------------------------------------------------------------------- the check

class C04(Check):
    pid = "C04"
    assumptions = [
        "valid instance: durations >= 0, every operation has at least one eligible machine",
        "score vectors have one entry per job (the built-in scoring functions do)",
        "observers are updated only through the dispatcher's notifications (no manual unsubscribe / double "
        "subscription of the scorer's observers); random draws and the clock are oracles: choice(l) in l, "
        "randint(0,100) in [0,100], perf_counter non-decreasing",
    ]
    modelled_not_verified = [
        "modelled: the five rule functions, score_based_rule, score_based_rule_with_tie_breaker, the scoring functions, "
        "MostWorkRemainingScorer, dispatching_rule_factory / machine_chooser_factory tables, DispatchingRuleSolver.__init__"
        "/solve/step, BaseSolver.__call__ (coq/model/Rules.v), DurationObserver / IsReadyObserver JOBS feature "
        "(coq/model/RuleObservers.v) - tied by relational differential execution, not verified",
        "Python min/max return the first optimum; random.choice / random.randint / time.perf_counter enter as oracles; "
        "numpy float32 job features are compared as exact integers (durations small)",
    ]
    nontrivial_rule = ("a solve case is non-trivial when the instance has >= 2 jobs and >= 3 operations and some step "
                       "offered >= 2 available operations; a session case when it has >= 2 accepted dispatches and "
                       ">= 1 rule/scorer invocation; distinct = distinct SHA1 of the case")

    def budget(self):
        return 4000 if self.tier == "quick" else 150000

    def search_budget(self):
        return 2500 if self.tier == "quick" else 20000

    # ---- generation ---------------------------------------------------------
    def gen_filters(self, rng):
        r = rng.random()
        if r < 0.2:
            return []
        if r < 0.45:
            return [rng.randrange(4)]
        if r < 0.6:
            return "default"
        return [rng.randrange(4) for _ in range(rng.randint(2, 4))]

    def gen_solve(self, rng):
        rule = rng.randrange(6)
        # the direct rules work on Python ints: durations next to 2^24 / 2^53 must be ranked exactly (the
        # observer-based rule reads float32 features and is kept to small durations, see `assumptions`)
        spec = common.gen_instance(rng, max_jobs=5, max_machines=4, max_ops=4,
                                   allow_empty_jobs=rng.random() < 0.1, big=rng.random() < 0.15,
                                   huge=rule < 4 and rng.random() < 0.3, p_all_huge=0.5)
        t0 = rng.randint(0, 1000)
        case = {"kind": "solve", "spec": spec, "rule": rule, "chooser": rng.randrange(2),
                "filters": self.gen_filters(rng), "seed": rng.randrange(10 ** 6),
                "clock": [t0, t0 + rng.choice([0, 1, 7, rng.randint(0, 10 ** 6)])]}
        if rng.random() < 0.3:
            case["warm_k"] = rng.randint(0, sum(len(j) for j in spec))
            self.note("solve_called_with_a_used_dispatcher")
        return case

    def gen_sfuns(self, rng, scorers):
        pool = [[0], [1], [2], [4]]
        if scorers:
            pool.append([3, rng.choice(scorers)])
        k = rng.randint(1, len(pool))
        return rng.sample(pool, k)

    def gen_session(self, rng):
        """scorers are referred to by ORDINAL (k-th MostWorkRemainingScorer created); the store index the model
        needs is taken from the implementation's run (model_events)."""
        spec = common.gen_instance(rng, max_jobs=5, max_machines=4, max_ops=4, big=rng.random() < 0.1)
        if rng.random() < 0.12:
            # many short jobs with few distinct durations: ties for the maximum remaining work between jobs whose ids
            # do not iterate in increasing order once they sit in a set (available_jobs() is list(set(...)))
            nm = rng.randint(1, 3)
            spec = [[[[rng.randrange(nm)], rng.choice([1, 2])] for _ in range(rng.randint(1, 2))]
                    for _ in range(rng.randint(9, 14))]
            self.note("session_many_jobs_with_ties")
        filters = self.gen_filters(rng)
        if filters == "default":
            filters = [0, 2]
        nxt = [0] * len(spec)
        events = []
        n_scorers = 0
        total = sum(len(j) for j in spec)
        done = 0
        p_rule = rng.choice([0.3, 0.6, 1.0])
        p_new = rng.choice([0.0, 0.1, 0.3])
        if rng.random() < 0.5:
            events.append([2])
            n_scorers += 1
        while done < total:
            if rng.random() < p_new:
                if rng.random() < 0.6:
                    events.append([2])
                    n_scorers += 1
                else:
                    events.append([3, int(rng.random() < 0.7)])
            # several rules / scorers may be asked in the SAME state (what one of them computes or caches must
            # not change what the next one selects)
            for _ in range(rng.choice([1, 1, 2, 3]) if rng.random() < p_rule else 0):
                scorers = list(range(n_scorers))
                r = rng.random()
                if r < 0.3:
                    events.append([5, rng.randrange(5)])
                elif r < 0.5 and scorers:
                    events.append([6, rng.choice(scorers)])
                elif r < 0.55 and scorers:
                    events.append([4, rng.choice(scorers)])
                elif r < 0.87:
                    events.append([7, self.gen_sfuns(rng, scorers), rng.randrange(10 ** 6)])
                else:
                    events.append([8, self.gen_sfuns(rng, scorers)[0], rng.randrange(10 ** 6)])
            if rng.random() < 0.15:
                events.append([9])
            if n_scorers and rng.random() < 0.06:
                events.append([10, rng.randrange(n_scorers), rng.randrange(2)])
            if rng.random() < 0.03 and done > 0:
                events.append([1])
                nxt = [0] * len(spec)
                done = 0
                continue
            ready = [j for j in range(len(spec)) if nxt[j] < len(spec[j])]
            j = rng.choice(ready)
            ms = spec[j][nxt[j]][0]
            events.append([0, j, nxt[j], rng.choice(ms)])
            nxt[j] += 1
            done += 1
        events.append([9])
        # rules asked in the complete state raise (no available operation) in model and implementation alike
        if rng.random() < 0.1:
            events.append([5, rng.randrange(5)])
        return {"kind": "session", "spec": spec, "filters": filters, "events": events}

    def exhaustive_small(self):
        """thorough tier: every instance with <= 2 jobs x <= 2 operations on <= 2 machines, durations in {0,1,2},
        flexible operations included; rule / chooser / filter configuration cycles through the matrix.
        Validates the model against the code on a complete small family; it does not stand in for a theorem."""
        import itertools
        ops = [[ms, d] for ms in ([0], [1], [0, 1], [1, 0]) for d in (0, 1, 2)]
        configs = [[], "default", [0], [1], [2], [3], [3, 0], [2, 1, 0]]
        i = 0
        for shape in ([1], [2], [1, 1], [2, 1], [1, 2], [2, 2]):
            for combo in itertools.product(ops, repeat=sum(shape)):
                it = iter(combo)
                spec = [[list(next(it)) for _ in range(k)] for k in shape]
                yield {"kind": "solve", "spec": spec, "rule": i % 6, "chooser": (i // 6) % 2,
                       "filters": configs[(i // 12) % len(configs)], "seed": i, "clock": [i, i + (i % 3)]}
                i += 1

    def gen_cases(self, rng, n):
        cases = []
        if self.tier == "thorough":
            cases = list(self.exhaustive_small())
            self.note("exhaustive_small_instances", len(cases))
        for i in range(n):
            c = self.gen_solve(rng) if i % 5 < 3 else self.gen_session(rng)
            cases.append(c)
        for c in cases:
            st = common.instance_stats(c["spec"])
            self.note("cases_" + c["kind"])
            for k in ("flexible", "zero", "empty_job"):
                if st[k]:
                    self.note("inst_" + k)
            self.note("ops_total", st["ops"])
            if c["kind"] == "solve":
                self.note("rule_" + RULE_NAMES[c["rule"]])
                self.note("chooser_" + CHOOSER_NAMES[c["chooser"]])
                f = c["filters"]
                self.note("filter_default" if f == "default" else "filter_none" if not f else
                          "filter_single_" + FILTER_NAMES[f[0]] if len(f) == 1 else "filter_composition")
            else:
                for ev in c["events"]:
                    self.note("ev_" + ["dispatch", "reset", "new_scorer", "user_duration_observer", "scorer_call",
                                       "builtin_rule", "observer_rule", "tie_breaker_rule", "score_based_rule",
                                       "snapshot", "scorer_used_on_another_dispatcher"][ev[0]])
        return cases

    # ---- implementation -------------------------------------------------------
    def run_impl(self, case):
        if case["kind"] == "solve":
            return run_solve(case)
        return run_session(case)

    # ---- model ----------------------------------------------------------------
    @staticmethod
    def fs_arg(filters):
        return -1 if filters == "default" else list(filters)

    def model_requests(self, case, obs):
        spec = case["spec"]
        if case["kind"] == "session":
            return [(404, [spec, list(case["filters"]), model_events(case, obs)])]
        fs = self.fs_arg(case["filters"])
        spec_rule = 2 if case["rule"] == 5 else case["rule"]
        reqs = []
        for run in (obs["real"], obs["fake"]):
            steps = [[s[1], s[2]] for s in run["steps"]]
            reqs.append((401, [spec, fs, spec_rule, case["chooser"], steps]))
            reqs.append((3, [spec, [run.get("rows", [])]]))
        # the model's own solve, its random draws = the positions the implementation chose
        run = obs["fake"]
        draws = []
        for avail, sel, m, machines in run["steps"]:
            draws.append([avail.index(sel) if sel in avail else 0, machines.index(m) if m in machines else 0])
        reqs.append((403, [spec, fs, min(case["rule"], 4) if case["rule"] != 5 else 2, case["chooser"], draws,
                           case["clock"][0], case["clock"][1]]))
        if "warm" in obs:
            run = obs["warm"]
            reqs.append((401, [spec, fs, spec_rule, case["chooser"], [[s[1], s[2]] for s in run["steps"]]]))
            reqs.append((3, [spec, [run.get("rows", [])]]))
        return reqs

    # ---- judgement --------------------------------------------------------------
    def judge(self, case, obs, outs):
        if case["kind"] == "session":
            return self.judge_session(case, obs, outs[0])
        fails = []
        n_ops = sum(len(j) for j in case["spec"])
        for idx, name in enumerate(("real", "fake")):
            run = obs[name]
            replay, clauses = outs[2 * idx], outs[2 * idx + 1][0]
            self.judge_run(case, name, run, replay, clauses, n_ops, fails)
        call = outs[4]
        if "warm" in obs:
            self.judge_run(case, f"solve(instance, dispatcher with {case['warm_k']} operations already dispatched)",
                           obs["warm"], outs[5], outs[6][0], n_ops, fails)
        # metadata
        real, fake = obs["real"], obs["fake"]
        if real["exn"] == 0:
            if real["elapsed_sign"] < 0:
                fails.append(Failure("oracle", "metadata:elapsed",
                                     "solver(instance) under the real clock recorded a NEGATIVE elapsed_time"))
            if real["solved_by"] != real["class"] or real["solved_by"] != call[3]:
                fails.append(Failure("oracle", "metadata:solved_by", "metadata['solved_by'] is not the solver's class name",
                                     expected=call[3], observed=real["solved_by"]))
        nested = obs.get("nested")
        if nested and nested["exn"] == 0 and real["exn"] == 0:
            self.note("nested_solver_calls")
            if not nested["solved_by_ok"]:
                fails.append(Failure("oracle", "metadata:solved_by",
                                     "a solver whose solve() calls another solver: the schedule returned by its "
                                     "__call__ does not carry its own class name in metadata['solved_by']"))
            if not nested["elapsed_ok"]:
                fails.append(Failure("oracle", "metadata:elapsed",
                                     "a solver whose solve() calls another solver and then works 2 ms more: its "
                                     "__call__ did not record its own elapsed_time (>= 2 ms)"))
        if fake["exn"] == 0:
            t0, t1 = case["clock"]
            want = call[1][0] if call[1] else None
            if want != t1 - t0:
                fails.append(Failure("tie", "model-call", "the model's call did not produce t1 - t0", observed=call))
            if fake["elapsed"] != t1 - t0:
                fails.append(Failure("oracle", "metadata:elapsed",
                                     f"perf_counter scripted to return {t0} then {t1} (non-decreasing): "
                                     f"elapsed_time = {fake['elapsed']}, expected {t1 - t0} (>= 0)",
                                     expected=t1 - t0, observed=fake["elapsed"]))
            # the model's own solve terminates with Done N; equal rows unless first-optimum tie-breaking differs
            if call[0] != [0, n_ops]:
                fails.append(Failure("tie", "model-solve", "the model's solve did not finish in N steps", observed=call[0]))
            # the model's own run (first optimum; random draws = the positions the implementation drew): equal
            # schedules are counted, a difference in tie-breaking among equally good operations is NOT a failure
            self.note("model_solve_same_schedule" if call[5] == fake["rows"] else "model_solve_other_tiebreak")
        if case["filters"] == "default" and call[4] != [0, 2]:
            fails.append(Failure("tie", "default-filters", "model default filter composition", observed=call[4]))
        return fails

    def judge_run(self, case, name, run, replay, clauses, n_ops, fails):
        rule = case["rule"]
        where = f"{name}-clock run, rule={RULE_NAMES[rule]}, chooser={CHOOSER_NAMES[case['chooser']]}, " \
                f"filters={case['filters']}"
        per_step, rows, complete, accepted, avail_end = replay
        for i, (st, m) in enumerate(zip(run["steps"], per_step)):
            avail, sel, mach, machines = st
            m_avail, bestb, m_sel, m_machines, chooser_ok, disp = m
            if avail != m_avail:
                fails.append(Failure("tie", "available", f"{where}: step {i}: available_operations() differs",
                                     expected=m_avail, observed=avail))
                return
            if sel not in avail:
                fails.append(Failure("oracle", RULE_SUB[rule] if rule != 5 else "mwkr-agree",
                                     f"{where}: step {i}: the selected operation {sel} is not one of the available "
                                     f"operations {avail}"))
                return
            if not bestb:
                fails.append(Failure("oracle", RULE_SUB[rule],
                                     f"{where}: step {i}: selected {sel} from {avail} is not a best operation under the "
                                     f"rule's criterion (the first optimum is {m_sel})", expected=m_sel, observed=sel))
                return
            if machines != m_machines:
                fails.append(Failure("tie", "machines", f"{where}: step {i}: operation.machines differs"))
                return
            if not chooser_ok:
                fails.append(Failure("oracle", "chooser:" + CHOOSER_NAMES[case["chooser"]],
                                     f"{where}: step {i}: machine {mach} chosen for {sel} with machines {machines}"))
                return
            if disp[0] != 0:
                fails.append(Failure("tie", "dispatch", f"{where}: step {i}: the model rejects the dispatch", observed=disp))
                return
        if run["exn"] == 8:
            fails.append(Failure("oracle", "solve:no-termination",
                                 f"{where}: the solver made more than N+3 = {n_ops + 3} steps"))
            return
        if run["exn"] != 0:
            fails.append(Failure("oracle", "solve:raised",
                                 f"{where}: solver(instance) raised {run.get('what')} after {len(run['steps'])} steps; "
                                 f"available operations at that point (model): {avail_end}"))
            return
        if run["n_rule_calls"] != n_ops or len(run["steps"]) != n_ops:
            fails.append(Failure("oracle", "solve:steps", f"{where}: {run['n_rule_calls']} steps for {n_ops} operations"))
        if run["rows"] != rows:
            fails.append(Failure("tie", "rows", f"{where}: final schedule differs from the replayed model",
                                 expected=rows, observed=run["rows"]))
        for cname, ok in zip(CLAUSES[:7], clauses[:7]):
            if not ok:
                fails.append(Failure("oracle", "solve:feasible", f"{where}: returned schedule violates '{cname}'",
                                     observed=run["rows"]))
        if not clauses[7] or not run["complete"]:
            fails.append(Failure("oracle", "solve:complete", f"{where}: returned schedule is not complete",
                                 observed=run["rows"]))

    def judge_session(self, case, obs, mouts):
        fails = []
        for i, (ev, o, m) in enumerate(zip(case["events"], obs, mouts)):
            t = ev[0]
            where = f"event #{i} {ev}"
            if t in (0, 1, 2, 3):
                if o != m:
                    fails.append(Failure("tie", "session", f"{where}: implementation and model differ",
                                         expected=m, observed=o))
                    return fails
            elif t == 4:
                if o != m:
                    fails.append(Failure("tie", "scorer-vector", f"{where}: MostWorkRemainingScorer()(dispatcher) differs",
                                         expected=m, observed=o))
            elif t in (9, 10):
                m = [m[0], m[1], [[2] if x[0] == 2 else x for x in m[2]], m[3]]   # scorer internals are private
                if o != m:
                    fails.append(Failure("tie", "snapshot", f"{where}: available / subscribers / job features / rows differ",
                                         expected=m, observed=o))
                    if o[0] != m[0] or o[3] != m[3]:
                        return fails
            else:
                sub = {5: RULE_SUB[ev[1]] if t == 5 else "", 6: "mwkr-agree", 7: "tiebreak", 8: "score-based"}[t]
                m_sel, ok, extra = m
                if o[0] != 0:
                    if m_sel[0] == 0:
                        fails.append(Failure("oracle", sub if t != 5 else sub,
                                             f"{where}: the rule raised (code {o[0]}) in a state with available operations; "
                                             f"the repaired rule selects {m_sel[1]}", expected=m_sel, observed=o))
                    elif m_sel[0] != o[0]:
                        fails.append(Failure("tie", "exception-kind", f"{where}: exception kinds differ",
                                             expected=m_sel, observed=o))
                    continue
                if m_sel[0] != 0:
                    fails.append(Failure("tie", "model-raises", f"{where}: the model raises, the implementation returned",
                                         expected=m_sel, observed=o))
                    continue
                if t == 6 and o[1] != o[2]:
                    fails.append(Failure("oracle", "mwkr-agree",
                                         f"{where}: observer-based rule selects {o[1]}, most_work_remaining_rule selects "
                                         f"{o[2]} in the same state", expected=o[2], observed=o[1]))
                if not ok:
                    fails.append(Failure("oracle", sub,
                                         f"{where}: selected {o[1]} is not a best available operation "
                                         f"({'lexicographically, score vectors ' + str(extra) if t == 7 else 'criterion of ' + sub}); "
                                         f"first optimum {m_sel[1]}", expected=m_sel[1], observed=o[1]))
                if t in (7, 8):
                    rec = o[2]
                    vs = extra if t == 7 else [extra]
                    codes = ev[1] if t == 7 else [ev[1]]
                    for v_impl, v_model, c in zip(rec, vs, codes):
                        if c[0] == 4:
                            if len(v_impl) != len(case["spec"]) or any(x < 0 or x > 100 for x in v_impl):
                                fails.append(Failure("oracle", "random-score", f"{where}: random_score returned {v_impl}"))
                        elif v_impl != v_model:
                            fails.append(Failure("tie", "score-vector",
                                                 f"{where}: scoring function {SFUN_NAMES[c[0]]} returned a different vector",
                                                 expected=v_model, observed=v_impl))
        return fails

    # ---- evidence helpers ---------------------------------------------------------
    def nontrivial(self, case, obs):
        if case["kind"] == "solve":
            return (len(case["spec"]) >= 2 and sum(len(j) for j in case["spec"]) >= 3
                    and any(len(s[0]) >= 2 for s in obs["fake"]["steps"]))
        n = sum(1 for ev, o in zip(case["events"], obs) if ev[0] == 0 and o and o[0] == 0)
        return n >= 2 and any(ev[0] in (4, 5, 6, 7, 8) for ev in case["events"])

    def shrink_candidates(self, case):
        spec = case["spec"]
        if case["kind"] == "solve":
            if case.get("warm_k") is not None:
                yield {k: v for k, v in case.items() if k != "warm_k"}
                if case["warm_k"] > 1:
                    yield dict(case, warm_k=1)
            if case["filters"] not in ("default", []):
                yield dict(case, filters=case["filters"][:-1])
            if case["filters"] == "default":
                yield dict(case, filters=[])
            for j in range(len(spec)):
                if len(spec) > 1:
                    yield dict(case, spec=spec[:j] + spec[j + 1:])
            for j, job in enumerate(spec):
                if len(job) > 1:
                    yield dict(case, spec=spec[:j] + [job[:-1]] + spec[j + 1:])
            for j, job in enumerate(spec):
                for p, (ms, d) in enumerate(job):
                    if len(ms) > 1:
                        s2 = [[list(o) for o in jb] for jb in spec]
                        s2[j][p] = [ms[:1], d]
                        yield dict(case, spec=s2)
                    if d > 1:
                        s2 = [[list(o) for o in jb] for jb in spec]
                        s2[j][p] = [ms, 1]
                        yield dict(case, spec=s2)
            return
        evs = case["events"]
        n = len(evs)
        for cut in (n // 2, n * 3 // 4, n - 1):
            if 0 < cut < n:
                yield dict(case, events=evs[:cut])
        for i in range(n - 1, -1, -1):
            if evs[i][0] in (4, 5, 6, 7, 8, 9):
                yield dict(case, events=evs[:i] + evs[i + 1:])
        for i in range(n):
            if evs[i][0] == 7 and len(evs[i][1]) > 1:
                for k in range(len(evs[i][1])):
                    yield dict(case, events=evs[:i] + [[7, evs[i][1][:k] + evs[i][1][k + 1:], evs[i][2]]] + evs[i + 1:])
        if case["filters"]:
            yield dict(case, filters=case["filters"][:-1])
        for j, job in enumerate(spec):
            for p, (ms, d) in enumerate(job):
                if d > 1:
                    s2 = [[list(o) for o in jb] for jb in spec]
                    s2[j][p] = [ms, 1]
                    yield dict(case, spec=s2)


CHECK = C04
