"""Check protocol (DESIGN 3.6): build, proof obligations, correspondence,
oracle, violation search, known findings, evidence, replay."""
from __future__ import annotations

import fcntl
import json
import logging
import multiprocessing as mp
import os
import re
import subprocess
import sys
import time
import traceback

from . import common

VERIF = common.VERIF
# experiments on changed copies of the library (tools/confirm_seeded.py) write their evidence / replays elsewhere
OUT = os.environ.get("VERIF_OUT", VERIF)
COQ = os.path.join(VERIF, "coq")
FORBIDDEN = re.compile(
    r"\b(Admitted|admit|Axiom|Parameter|Conjecture|Abort All)\b|Unset Guard|bypass_check|"
    r"type-in-type|impredicative-set|Admit Obligations|native_compute")


class Failure:
    """One thing that went wrong on one case."""

    def __init__(self, kind, subclaim, detail, expected=None, observed=None):
        self.kind = kind            # 'oracle' (property fails on impl output) | 'tie' (impl != model)
        self.subclaim = subclaim
        self.detail = detail
        self.expected = expected
        self.observed = observed

    def to_json(self):
        return {"kind": self.kind, "subclaim": self.subclaim, "detail": self.detail,
                "expected": self.expected, "observed": self.observed}


class Check:
    """Base class of a property check. Subclasses define the pieces."""

    pid = "C00"
    theorem_file = None           # coq/properties/Cxx.v
    nontrivial_rule = ""
    assumptions: list = []
    modelled_not_verified: list = []

    def __init__(self, tier: str, seed: int):
        self.tier = tier
        self.seed = seed
        self.dist = {}

    # ---- to be provided -------------------------------------------------
    def corpus_cases(self):
        path = os.path.join(VERIF, "corpus", f"{self.pid}.json")
        if os.path.exists(path):
            with open(path) as f:
                return json.load(f)
        return []

    def gen_cases(self, rng, n):
        raise NotImplementedError

    def budget(self):
        return 1200 if self.tier == "quick" else 12000

    def search_budget(self):
        return 3000 if self.tier == "quick" else 20000

    def run_impl(self, case):
        raise NotImplementedError

    def model_requests(self, case, obs):
        return []

    def judge(self, case, obs, outs):
        """-> list[Failure]"""
        raise NotImplementedError

    def nontrivial(self, case, obs):
        return True

    def shrink_candidates(self, case):
        return []

    def summarize(self, case):
        return case

    # ---- helpers ----------------------------------------------------------
    def note(self, key, n=1):
        self.dist[key] = self.dist.get(key, 0) + n


def _locked_build():
    lock = open(os.path.join(VERIF, ".build.lock"), "w")
    fcntl.flock(lock, fcntl.LOCK_EX)
    try:
        p = subprocess.run([os.path.join(VERIF, "build.sh")], capture_output=True, text=True)
        return p.returncode, p.stdout + p.stderr
    finally:
        fcntl.flock(lock, fcntl.LOCK_UN)
        lock.close()


def coq_sources():
    out = []
    for root, _, files in os.walk(COQ):
        if "_run" in root:
            continue
        for f in files:
            if f.endswith(".v"):
                out.append(os.path.join(root, f))
    return sorted(out)


def scan_forbidden():
    hits = []
    for p in coq_sources():
        with open(p) as f:
            text = f.read()
        # strip comments (non-nested is enough for our sources; nested handled by loop)
        prev = None
        while prev != text:
            prev = text
            text = re.sub(r"\(\*[^()]*?\*\)", "", text, flags=re.S)
        text = re.sub(r"\(\*.*?\*\)", "", text, flags=re.S)
        for m in FORBIDDEN.finditer(text):
            hits.append(f"{os.path.relpath(p, VERIF)}: {m.group(0)}")
    return hits


def cone_of(vfile):
    """Project files the given .v file transitively requires."""
    names = {}
    for p in coq_sources():
        names[os.path.splitext(os.path.basename(p))[0]] = p
    seen = []
    todo = [vfile]
    while todo:
        p = todo.pop()
        if p in seen:
            continue
        seen.append(p)
        with open(p) as f:
            text = f.read()
        for m in re.finditer(r"From JSL Require (?:Import|Export) ([^.]*)\.", text):
            for n in m.group(1).split():
                if n in names:
                    todo.append(names[n])
    return seen


STMT = re.compile(r"^\s*(?:Theorem|Lemma|Corollary|Example|Fact|Remark|Proposition)\s+([A-Za-z0-9_']+)", re.M)


def proof_obligations(check: Check):
    """Compiles the property file(s) coq/properties/<pid>.v, <pid>b.v, ... ; returns (info dict, error or None)."""
    import glob

    main = os.path.join(COQ, "properties", f"{check.pid}.v")
    vfiles = [main] + sorted(glob.glob(os.path.join(COQ, "properties", f"{check.pid}[a-z].v")))
    info = {"theorem_file": ", ".join(os.path.relpath(v, VERIF) for v in vfiles), "obligations": 0, "discharged": 0,
            "theorems": [], "assumptions_output": "", "cone": []}
    if not os.path.exists(main):
        return info, f"missing {main}"
    cone = []
    for v in vfiles:
        for p in cone_of(v):
            if p not in cone:
                cone.append(p)
    info["cone"] = [os.path.relpath(p, VERIF) for p in cone]
    n = 0
    for p in cone:
        with open(p) as f:
            n += len(STMT.findall(f.read()))
    for v in vfiles:
        with open(v) as f:
            info["theorems"] += STMT.findall(f.read())
    info["obligations"] = n
    missing = [p for p in cone if not os.path.exists(p[:-2] + ".vo")
               or os.path.getmtime(p[:-2] + ".vo") < os.path.getmtime(p)]
    if missing:
        return info, "not compiled: " + ", ".join(os.path.relpath(p, VERIF) for p in missing)
    os.makedirs(os.path.join(COQ, "_run", "recheck"), exist_ok=True)
    outs = []
    cmds = []
    for v in vfiles:
        base = os.path.splitext(os.path.basename(v))[0]
        args = ["coqc", "-Q", "model", "JSL", "-Q", "spec", "JSL", "-Q", "proofs", "JSL",
                "-Q", "properties", "JSL", "-Q", "extraction", "JSL",
                "-o", os.path.join(COQ, "_run", "recheck", f"{base}.vo"), v]
        p = subprocess.run(args, cwd=COQ, capture_output=True, text=True, timeout=1200)
        cmds.append(" ".join(os.path.relpath(a, COQ) if a.startswith("/") else a for a in args))
        out = p.stdout + p.stderr
        outs.append(out.strip())
        if p.returncode != 0:
            info["assumptions_output"] = "\n".join(outs)
            return info, f"property file {base}.v does not check: " + out[-2000:]
    info["checker_cmd"] = "cd coq && make (full .vo build) && " + " && ".join(cmds)
    out = "\n".join(outs)
    info["assumptions_output"] = out
    closed = out.count("Closed under the global context")
    axioms = [l.strip() for l in out.splitlines() if re.match(r"^\s*[A-Za-z_.0-9']+\s*:", l)
              and "Closed" not in l]
    info["closed_theorems"] = closed
    info["axioms_reported"] = axioms
    info["discharged"] = n
    return info, None


def run_coqchk(check: Check):
    """thorough tier: independent re-check of the compiled property files and everything they depend on with
    coqchk, and its own report of the axioms / unsafe features they rely on."""
    import glob

    mods = ["JSL." + os.path.splitext(os.path.basename(v))[0]
            for v in [os.path.join(COQ, "properties", f"{check.pid}.v")] +
            sorted(glob.glob(os.path.join(COQ, "properties", f"{check.pid}[a-z].v")))]
    args = ["coqchk", "-o", "-silent", "-Q", "model", "JSL", "-Q", "spec", "JSL", "-Q", "proofs", "JSL",
            "-Q", "properties", "JSL", "-Q", "extraction", "JSL"] + mods
    try:
        p = subprocess.run(args, cwd=COQ, capture_output=True, text=True, timeout=3000)
    except subprocess.TimeoutExpired:
        return {"cmd": " ".join(args), "status": "timeout"}, None
    out = (p.stdout + p.stderr).strip()
    summary = out[out.find("CONTEXT SUMMARY"):] if "CONTEXT SUMMARY" in out else out[-1500:]
    res = {"cmd": " ".join(args), "status": "ok" if p.returncode == 0 else "failed", "summary": summary}
    if p.returncode != 0:
        return res, "coqchk rejected the compiled development: " + out[-1500:]
    clean = all(x in summary for x in ("Axioms: <none>", "type-in-type: <none>", "unsafe (co)fixpoints: <none>",
                                       "positivity is assumed: <none>"))
    if not clean:
        return res, "coqchk reports axioms or unchecked features: " + summary
    return res, None


class _Drain(logging.Handler):
    """formats every record (so that lazily formatted arguments are evaluated) and throws it away"""

    def emit(self, record):
        try:
            record.getMessage()
        except Exception:  # pylint: disable=broad-except
            pass


def debug_logging_for(case) -> bool:
    """every eighth case (a function of the case, so that a replay repeats it) runs with the logging module
    switched to DEBUG for every logger, as an application that debugs its scheduler would: what the library does
    must not depend on it"""
    return int(common.case_hash(case)[:2], 16) % 8 == 0


def _impl_worker(args):
    check, case = args
    dbg = debug_logging_for(case)
    saved = []
    drain = None
    if dbg:
        root = logging.getLogger()
        names = [None] + [n for n in logging.root.manager.loggerDict if n.split(".")[0] == "job_shop_lib"]
        for n in names + ["job_shop_lib"]:
            lg = logging.getLogger(n)
            saved.append((lg, lg.level, lg.disabled))
            lg.setLevel(logging.DEBUG)
            lg.disabled = False
        drain = _Drain()
        root.addHandler(drain)
    try:
        return ("ok", check.run_impl(case))
    except Exception:  # pylint: disable=broad-except
        return ("crash", traceback.format_exc()[-1500:])
    finally:
        if dbg:
            logging.getLogger().removeHandler(drain)
            for lg, level, disabled in saved:
                lg.setLevel(level)
                lg.disabled = disabled


def evaluate(check: Check, cases, pool=None):
    """Runs impl + model + judge on the cases. Returns list of (case, obs, failures)."""
    if pool is not None and len(cases) > 8:
        res = pool.map(_impl_worker, [(check, c) for c in cases], chunksize=max(1, len(cases) // 64))
    else:
        res = [_impl_worker((check, c)) for c in cases]
    reqs = []
    spans = []
    for case, (st, obs) in zip(cases, res):
        r = []
        if st == "ok":
            try:
                r = check.model_requests(case, obs)
            except Exception:  # pylint: disable=broad-except
                # the observation does not have the shape the model requests are built from (a shrinking
                # candidate, or an implementation whose behaviour changed): a tie failure, never a crash
                res[len(spans)] = ("reqcrash", traceback.format_exc()[-1500:])
        spans.append((len(reqs), len(reqs) + len(r)))
        reqs.extend(r)
    outs = common.run_model(reqs) if reqs else []
    if reqs and not XCHECK_SAMPLE:
        XCHECK_SAMPLE.extend(list(zip(reqs, outs)))
    results = []
    for case, (st, obs), (a, b) in zip(cases, res, spans):
        if st == "reqcrash":
            results.append((case, None, [Failure("tie", "model-requests-crash",
                                                  "the observation cannot be turned into model requests: " + obs)]))
            continue
        if st != "ok":
            results.append((case, None, [Failure("oracle", "harness-crash",
                                                  "the implementation driver crashed: " + obs)]))
            continue
        try:
            fails = check.judge(case, obs, outs[a:b])
        except Exception:  # pylint: disable=broad-except
            fails = [Failure("tie", "judge-crash", traceback.format_exc()[-1500:])]
        results.append((case, obs, fails))
    return results


XCHECK_SAMPLE = []


def coq_val(v):
    if isinstance(v, int):
        return f"VI ({v})"
    return "VL [" + "; ".join(coq_val(x) for x in v) + "]"


def extraction_cross_check(check, rng, max_cases=24, max_chars=2500):
    """DESIGN 3.2: re-evaluates a sample of this run's model requests INSIDE Coq (vm_compute on the very
    definitions the theorems are about) and compares with what the extracted OCaml runner + driver.ml answered.
    Returns (number checked, error or None)."""
    cands = [(r, o) for r, o in XCHECK_SAMPLE
             if len(common.to_sexp(r[1])) + len(common.to_sexp(o)) < max_chars]
    if not cands:
        return 0, None
    sample = rng.sample(cands, min(max_cases, len(cands)))
    lines = ["From JSL Require Import Base Commands.", "Open Scope Z_scope."]
    for i, ((c, v), o) in enumerate(sample):
        lines.append(f"Example xc_{i} : run_cmd ({c}) ({coq_val(common.norm(v))}) = {coq_val(o)}.")
        lines.append("Proof. vm_compute. reflexivity. Qed.")
    d = os.path.join(VERIF, ".scratch")
    os.makedirs(d, exist_ok=True)
    path = os.path.join(d, f"xcheck_{check.pid}_{os.getpid()}.v")
    with open(path, "w") as f:
        f.write("\n".join(lines) + "\n")
    try:
        p = subprocess.run(["coqc", "-Q", "model", "JSL", "-Q", "spec", "JSL", "-Q", "proofs", "JSL",
                            "-Q", "properties", "JSL", "-Q", "extraction", "JSL", "-o", path[:-2] + ".vo", path],
                           cwd=COQ, capture_output=True, text=True, timeout=600)
        if p.returncode != 0:
            return len(sample), (p.stdout + p.stderr)[-1500:]
        return len(sample), None
    finally:
        for ext in (".v", ".vo", ".vok", ".vos", ".glob"):
            try:
                os.remove(path[:-2] + ext)
            except OSError:
                pass
        try:
            os.remove(os.path.join(d, "." + os.path.basename(path)[:-2] + ".aux"))
        except OSError:
            pass


def load_known():
    path = os.path.join(VERIF, "known_findings.json")
    if not os.path.exists(path):
        return []
    with open(path) as f:
        return json.load(f)


def shrink(check: Check, case, subclaim, kind, budget=150):
    """Greedy shrinking with the property's own candidate generator."""
    cur = case
    spent = 0
    progress = True
    while progress and spent < budget:
        progress = False
        for cand in check.shrink_candidates(cur):
            spent += 1
            if spent > budget:
                break
            r = evaluate(check, [cand])[0]
            if any(f.subclaim == subclaim and f.kind == kind for f in r[2]):
                cur = cand
                progress = True
                break
    return cur


def write_replay(check: Check, case, failures, extra=None):
    os.makedirs(os.path.join(OUT, "replays"), exist_ok=True)
    path = os.path.join(OUT, "replays", f"{check.pid}-{check.seed}.json")
    doc = {"property": check.pid, "seed": check.seed, "tier": check.tier, "case": case,
           "failures": [f.to_json() for f in failures],
           "how_to_replay": f"cd /verif && ./check {check.pid} --replay {path}"}
    if extra:
        doc.update(extra)
    with open(path, "w") as f:
        json.dump(doc, f, indent=1)
    return path


def run_check(check: Check, replay=None):
    import random

    timer = common.Timer()
    lines = []
    rc, out = _locked_build()
    if rc != 0 or "BUILD-OK" not in out:
        print(out[-3000:])
        print(f"CHECK-BROKEN property={check.pid} the Coq development / runner did not build")
        return 2
    forbidden = scan_forbidden()
    if forbidden:
        print(f"CHECK-BROKEN property={check.pid} forbidden constructs: {forbidden}")
        return 2
    info, perr = proof_obligations(check)

    if replay:
        with open(replay) as f:
            doc = json.load(f)
        r = evaluate(check, [doc["case"]])[0]
        print(json.dumps({"case": check.summarize(doc["case"]),
                          "failures_now": [f.to_json() for f in r[2]],
                          "failures_recorded": doc.get("failures")}, indent=1)[:20000])
        if r[2]:
            print(f"VIOLATION property={check.pid} replay={replay}")
            return 1
        print("replay: no failure on the current tree")
        return 0

    rng = random.Random(check.seed * 1000003 + (1 if check.tier == "thorough" else 0))
    corpus = check.corpus_cases()
    generated = check.gen_cases(rng, check.budget())
    cases = list(corpus) + list(generated)
    pool = mp.get_context("fork").Pool(min(16, os.cpu_count() or 4))
    try:
        results = evaluate(check, cases, pool)
        known = [k for k in load_known() if k["property"] == check.pid]
        known_active = [k for k in known if k.get("status") == "known"]

        # replay known findings' witnesses
        known_seen = []
        for k in known_active:
            r = evaluate(check, [k["witness"]])[0]
            if any(f.subclaim == k["subclaim"] for f in r[2]):
                known_seen.append(k)
                lines.append(f"KNOWN-FINDING: property={check.pid} {k['what']}")
            else:
                lines.append(f"note: known finding '{k['id']}' no longer reproduces on this tree")

        oracle_fail = []
        tie_fail = []
        attributed = 0
        for case, obs, fails in results:
            for f in fails:
                if f.kind == "oracle":
                    # attribute to a known finding: same sub-claim AND the model exhibits it
                    # (no tie failure on the same case)
                    if any(k["subclaim"] == f.subclaim for k in known_seen) and not any(
                            g.kind == "tie" for g in fails):
                        attributed += 1
                        continue
                    oracle_fail.append((case, f))
                else:
                    tie_fail.append((case, f))

        violation = None
        searched = 0
        from . import translator
        kernels = translator.check_kernels(check.pid)
        for kr in kernels:
            if kr["status"] == "broken":
                tie_fail.append((None, Failure("tie", "kernel-equivalence:" + kr["kernel"],
                                               "the Gallina translation of the CURRENT source of this kernel is no "
                                               "longer provably equal to the model's term: " + kr["detail"])))
        coqchk_res = None
        if check.tier == "thorough" and os.environ.get("VERIF_SKIP_COQCHK") != "1":
            coqchk_res, cerr = run_coqchk(check)
            if cerr:
                tie_fail.append((None, Failure("tie", "proof-obligation", cerr)))
        xc_n, xc_err = extraction_cross_check(check, random.Random(check.seed + 5))
        if xc_err:
            tie_fail.append((None, Failure("tie", "extraction-cross-check",
                                           "the extracted runner and vm_compute inside Coq disagree: " + xc_err)))
        if perr:
            tie_fail.append((None, Failure("tie", "proof-obligation", perr)))
        if not oracle_fail and tie_fail:
            # violation search: a larger oracle-only budget
            extra = check.gen_cases(random.Random(check.seed + 77), check.search_budget())
            res2 = evaluate(check, list(extra), pool)
            searched = len(res2)
            for case, obs, fails in res2:
                for f in fails:
                    if f.kind == "oracle" and not (
                            any(k["subclaim"] == f.subclaim for k in known_seen)
                            and not any(g.kind == "tie" for g in fails)):
                        oracle_fail.append((case, f))
                        break
                if oracle_fail:
                    break
        if oracle_fail:
            case, f = oracle_fail[0]
            small = shrink(check, case, f.subclaim, "oracle")
            r = evaluate(check, [small])[0]
            path = write_replay(check, small, r[2] or [f])
            violation = f"VIOLATION property={check.pid} replay={path}"
        elif tie_fail:
            case, f = tie_fail[0]
            if case is not None:
                case = shrink(check, case, f.subclaim, "tie")
            path = write_replay(check, case, [f], {
                "no_failing_input_found": True,
                "broken": ("theorem/property file " + info.get("theorem_file", "")
                           if f.subclaim == "proof-obligation" else
                           "extraction: runner vs vm_compute" if f.subclaim == "extraction-cross-check" else
                           "generated lemma gen_k_ok for kernel " + f.subclaim.split(":", 1)[1]
                           if f.subclaim.startswith("kernel-equivalence:") else
                           f"correspondence impl == model ({f.subclaim}) of {check.pid}"),
                "oracle_only_cases_searched": searched})
            violation = f"VIOLATION property={check.pid} replay={path} no-failing-input-found"
    finally:
        pool.terminate()

    # evidence
    nontriv = set()
    for case, obs, _ in results:
        if obs is not None and check.nontrivial(case, obs):
            nontriv.add(common.case_hash(case))
    samples = [check.summarize(c) for c in (cases[:1] + cases[len(corpus):len(corpus) + 2])][:3]
    ev = {
        "property_id": check.pid,
        "tier": check.tier,
        "seed": check.seed,
        "level": "proof",
        "coverage": {
            "obligations": info["obligations"],
            "discharged": info["discharged"],
            "checker_cmd": info.get("checker_cmd", "cd coq && make"),
            "trusted_base": TRUSTED_BASE + check.modelled_not_verified,
            "property_theorems": info["theorems"],
            "print_assumptions": info["assumptions_output"][-6000:],
            "proof_cone": info["cone"],
            "evaluations": len(cases),
            "distinct_nontrivial": len(nontriv),
            "rule": check.nontrivial_rule,
            "samples": samples,
            "traces_validated_against_impl": sum(1 for _, o, f in results
                                                 if o is not None and not any(x.kind == "tie" for x in f)),
            "disagreements_checked": len(tie_fail) if 'tie_fail' in dir() else 0,
            "oracle_failures": len(oracle_fail),
            "attributed_to_known_findings": attributed,
            "known_findings_seen": [k["id"] for k in known_seen],
            "corpus_cases": len(corpus),
            "violation_search_cases": searched,
            "extraction_cross_checked_in_coq": xc_n,
            "coqchk": coqchk_res,
            "kernels_regenerated_from_source_and_proved_equal": [k["kernel"] for k in kernels if k["status"] == "tied"],
            "translator_fallback": [k["kernel"] + ": " + k["detail"] for k in kernels if k["status"] == "fallback"],
            "input_distribution": check.dist,
            "exhaustive": False,
        },
        "assumptions": check.assumptions,
        "wall_s": round(timer.elapsed(), 2),
        "violations": 1 if violation else 0,
    }
    os.makedirs(os.path.join(OUT, "evidence"), exist_ok=True)
    with open(os.path.join(OUT, "evidence", f"{check.pid}.json"), "w") as f:
        json.dump(ev, f, indent=1)
    for l in lines:
        print(l)
    print(f"{check.pid} [{check.tier}] cases={len(cases)} nontrivial={len(nontriv)} "
          f"tie_failures={len(tie_fail)} oracle_failures={len(oracle_fail)} "
          f"known={len(known_seen)} obligations={info['discharged']}/{info['obligations']} "
          f"wall={ev['wall_s']}s")
    if violation:
        print(violation)
        return 1
    return 0


TRUSTED_BASE = [
    "Coq 8.16.1 kernel (coqc; vm_compute used in Examples/_refuted witnesses; no native_compute)",
    "no axioms declared by the development; Print Assumptions output of every property theorem is in print_assumptions",
    "extraction: ExtrOcamlBasic only (Extract Inductive bool/option/unit/list/prod/sumbool/sumor, "
    "Extract Inlined Constant andb/orb); nat and Z stay extracted inductives; OCaml 4.13.1",
    "driver.ml: s-expression parser/printer and int<->Z conversion (trusted glue)",
    "correspondence harness (/verif/harness): implementation drivers, canonicalisers, generators; "
    "the tie is sampled, its distribution is in input_distribution",
    "CPython semantics of the modelled constructs",
]
