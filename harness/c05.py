"""C05 — state queries agree with the schedule, whatever was asked before."""
from .framework import Failure
from .sessioncheck import SessionCheck

QNAMES = ["current_time", "available_operations", "raw_ready_operations", "unscheduled_operations",
          "scheduled_operations", "available_machines", "available_jobs", "completed_operations",
          "uncompleted_operations", "ongoing_operations", "earliest_start_time", "remaining_duration",
          "is_scheduled", "is_ongoing", "next_operation", "min_start_time", "filter"]


class C05(SessionCheck):
    pid = "C05"
    inst_kwargs = dict(allow_empty_jobs=True, huge=True)
    gen_kwargs = dict(p_invalid=0.05, p_query=0.6, p_reset=0.04, p_snapshot=1.0, p_obs=0.05,
                      start_observers_choices=[1], obs_kinds=(0, 1, 2, 3))
    assumptions = ["valid instance: durations >= 0, every operation has a machine",
                   "queries name operations of the dispatcher's own instance"]
    modelled_not_verified = [
        "modelled: every @_dispatcher_cache query of Dispatcher, earliest_start_time, remaining_duration, "
        "is_scheduled, is_ongoing, next_operation, min_start_time, the four filter functions, "
        "UnscheduledOperationsObserver (coq/model/World.v, Filters.v, Observers.v) - tied by differential "
        "execution; list(set(...)) results are compared as sorted lists"]

    def make_case(self, rng):
        case, stats = super().make_case(rng)
        evs = case["events"]
        k = 0
        while k < len(evs) and evs[k][0] == 3:
            k += 1
        if "env" not in case and not any(ev[0] in (3, 4, 5, 6, 10) for ev in evs[k:]) and rng.random() < 0.6 \
                and all(case["spec"]):
            # a ResidualGraphUpdater of the library watches the whole session from outside the model world
            evs.insert(k, [11, rng.randrange(4)])
            stats["foreign_updater"] = 1
        return case, stats

    def extra_requests(self, case, obs):
        rows = self.rows_before(case, obs)
        items = []
        self._qidx = []
        for i, (ev, o) in enumerate(zip(case["events"], obs)):
            if ev[0] == 1 and rows[i] is not None:
                items.append([rows[i], ev[1], ev[2]])
        return [(4, [case["spec"], case["filters"], items])]

    def judge(self, case, obs, outs):
        model_out, _clauses, spec_q = outs
        fails = self.tie_failures(case, obs, model_out) + self.reset_failures(case, obs)
        rows = self.rows_before(case, obs)
        k = 0
        total_ops = sum(len(j) for j in case["spec"])
        for i, (ev, o) in enumerate(zip(case["events"], obs)):
            if ev[0] == 1 and rows[i] is not None:
                want = spec_q[k]
                k += 1
                if o != want:
                    fails.append(Failure("oracle", "query:" + QNAMES[ev[1]],
                                         f"event #{i}: {QNAMES[ev[1]]}({ev[2]}) differs from the from-scratch "
                                         f"recomputation on the current schedule rows",
                                         expected=want, observed=o))
            if ev[0] == 7:
                # the unscheduled-operations observer(s): its iterable = operations not in the rows
                present = {(x[0], x[1]) for row in o[0][3] for x in row}
                allk = [(j, p) for j, job in enumerate(case["spec"]) for p in range(len(job))]
                want = [list(k2) for k2 in allk if k2 not in present]
                subs = set(o[4])
                for idx, ob in enumerate(o[5]):
                    if ob[0] == 1 and idx in subs and self.subscribed_since_reset(case, obs, idx, i):
                        if ob[2] != want or ob[3] != total_ops - len(present):
                            fails.append(Failure("oracle", "unscheduled-observer",
                                                 f"snapshot #{i}: UnscheduledOperationsObserver differs from "
                                                 f"'all operations minus the schedule rows'",
                                                 expected=want, observed=ob[2]))
        return fails

    def subscribed_since_reset(self, case, obs, idx, upto):
        """True when object idx was constructed (event 3/6) and never unsubscribed before event `upto`."""
        alive = False
        for ev, o in zip(case["events"][:upto], obs[:upto]):
            if ev[0] in (3, 6) and o and o[0] == 0 and o[1] == idx:
                alive = True
            if ev[0] == 4 and ev[1] == idx:
                return False
            if ev[0] == 5 and ev[1] == idx:
                return False
        return alive

    def nontrivial(self, case, obs):
        nq = sum(1 for ev in case["events"] if ev[0] == 1)
        nd = sum(1 for ev, o in zip(case["events"], obs) if ev[0] == 0 and o and o[0] == 0)
        return nq >= 3 and nd >= 2

    nontrivial_rule = ("event scripts from the seeded generator; non-trivial = >= 2 accepted dispatches and >= 3 "
                       "queries; distinct = distinct SHA1 of the whole case")


CHECK = C05
