"""C05 — state queries agree with the schedule, whatever was asked before."""
from . import common
from .framework import Failure
from .sessioncheck import SessionCheck

QNAMES = ["current_time", "available_operations", "raw_ready_operations", "unscheduled_operations",
          "scheduled_operations", "available_machines", "available_jobs", "completed_operations",
          "uncompleted_operations", "ongoing_operations", "earliest_start_time", "remaining_duration",
          "is_scheduled", "is_ongoing", "next_operation", "min_start_time", "filter"]


class C05(SessionCheck):
    pid = "C05"
    inst_kwargs = dict(allow_empty_jobs=True, huge=True)
    gen_kwargs = dict(p_invalid=0.05, p_query=0.6, p_reset=0.04, p_snapshot=1.0, p_obs=0.05,
                      start_observers_choices=[1], obs_kinds=(0, 1, 2, 3))
    assumptions = ["valid instance: durations >= 0, every operation has a machine",
                   "queries name operations of the dispatcher's own instance"]
    modelled_not_verified = [
        "modelled: every @_dispatcher_cache query of Dispatcher, earliest_start_time, remaining_duration, "
        "is_scheduled, is_ongoing, next_operation, min_start_time, the four filter functions, "
        "UnscheduledOperationsObserver (coq/model/World.v, Filters.v, Observers.v) - tied by differential "
        "execution; list(set(...)) results are compared as sorted lists"]

    def make_case(self, rng):
        case, stats = super().make_case(rng)
        evs = case["events"]
        k = 0
        while k < len(evs) and evs[k][0] == 3:
            k += 1
        if "env" not in case and not any(ev[0] in (3, 4, 5, 6, 10) for ev in evs[k:]) and rng.random() < 0.6 \
                and all(case["spec"]):
            # a ResidualGraphUpdater of the library watches the whole session from outside the model world
            evs.insert(k, [11, rng.randrange(4)])
            stats["foreign_updater"] = 1
        return case, stats

    def extra_requests(self, case, obs):
        rows = self.rows_before(case, obs)
        items = []
        self._qidx = []
        for i, (ev, o) in enumerate(zip(case["events"], obs)):
            if ev[0] == 1 and rows[i] is not None:
                items.append([rows[i], ev[1], ev[2]])
        return [(4, [case["spec"], case["filters"], items])]

    def judge(self, case, obs, outs):
        if case.get("kind") == "user_filter":
            if obs["clock_went_back"]:
                self.note("user_filter_sessions_in_which_the_clock_went_back")
            return [Failure("oracle", "user-filter:" + what,
                            f"dispatcher with the user-defined filter '{self.USER_FILTERS[case['filter']]}': {detail}")
                    for what, detail in obs["problems"]]
        model_out, _clauses, spec_q = outs
        fails = self.tie_failures(case, obs, model_out) + self.reset_failures(case, obs)
        rows = self.rows_before(case, obs)
        k = 0
        total_ops = sum(len(j) for j in case["spec"])
        for i, (ev, o) in enumerate(zip(case["events"], obs)):
            if ev[0] == 1 and rows[i] is not None:
                want = spec_q[k]
                k += 1
                if o != want:
                    fails.append(Failure("oracle", "query:" + QNAMES[ev[1]],
                                         f"event #{i}: {QNAMES[ev[1]]}({ev[2]}) differs from the from-scratch "
                                         f"recomputation on the current schedule rows",
                                         expected=want, observed=o))
            if ev[0] == 7:
                # the unscheduled-operations observer(s): its iterable = operations not in the rows
                present = {(x[0], x[1]) for row in o[0][3] for x in row}
                allk = [(j, p) for j, job in enumerate(case["spec"]) for p in range(len(job))]
                want = [list(k2) for k2 in allk if k2 not in present]
                subs = set(o[4])
                for idx, ob in enumerate(o[5]):
                    if ob[0] == 1 and idx in subs and self.subscribed_since_reset(case, obs, idx, i):
                        if ob[2] != want or ob[3] != total_ops - len(present):
                            fails.append(Failure("oracle", "unscheduled-observer",
                                                 f"snapshot #{i}: UnscheduledOperationsObserver differs from "
                                                 f"'all operations minus the schedule rows'",
                                                 expected=want, observed=ob[2]))
        return fails

    def subscribed_since_reset(self, case, obs, idx, upto):
        """True when object idx was constructed (event 3/6) and never unsubscribed before event `upto`."""
        alive = False
        for ev, o in zip(case["events"][:upto], obs[:upto]):
            if ev[0] in (3, 6) and o and o[0] == 0 and o[1] == idx:
                alive = True
            if ev[0] == 4 and ev[1] == idx:
                return False
            if ev[0] == 5 and ev[1] == idx:
                return False
        return alive

    # ---- user-defined ready-operations filters (any callable is accepted by Dispatcher: public API). The model's
    # filter names enumerate the built-in ones, so these sessions have no model; they are judged by the clauses of
    # the property that need none: the partitions, "uncompleted = unscheduled + ongoing", completed = the scheduled
    # operations that ended by current_time(), available = what the filter returns on the ready operations, and the
    # same answers whatever was asked before, in whatever order, however often. Under such a filter the current
    # time may go DOWN from one state to the next.
    USER_FILTERS = ("highest_job_only", "lowest_job_only", "last_ready_only", "drop_first_when_several")

    @staticmethod
    def user_filter(k):
        def highest_job_only(_d, ops):
            return [o for o in ops if o.job_id == max(x.job_id for x in ops)]

        def lowest_job_only(_d, ops):
            return [o for o in ops if o.job_id == min(x.job_id for x in ops)]

        def last_ready_only(_d, ops):
            return ops[-1:]

        def drop_first_when_several(_d, ops):
            return ops[1:] if len(ops) > 1 else ops

        return [highest_job_only, lowest_job_only, last_ready_only, drop_first_when_several][k]

    def gen_cases(self, rng, n):
        cases = super().gen_cases(rng, n)
        for _ in range(max(20, n // 20)):
            spec = common.gen_instance(rng, max_jobs=4, max_machines=3, max_ops=3, allow_empty_jobs=False)
            cases.append({"kind": "user_filter", "spec": spec, "filter": rng.randrange(len(self.USER_FILTERS)),
                          "seed": rng.randrange(10 ** 6)})
            self.note("sessions_under_a_user_defined_filter")
        return cases

    def run_impl(self, case):
        if case.get("kind") != "user_filter":
            return super().run_impl(case)
        import random as _random

        common.import_impl()
        from job_shop_lib.dispatching import Dispatcher

        inst = common.build_instance(case["spec"])
        filt = self.user_filter(case["filter"])
        d = Dispatcher(inst, ready_operations_filter=filt)
        r = _random.Random(case["seed"])
        key = lambda o: (o.job_id, o.position_in_job)   # noqa: E731
        all_ops = {key(o) for job in inst.jobs for o in job}
        problems = []
        states = 0
        went_back = 0
        prev_now = None
        queries = ["current_time", "available_operations", "unscheduled_operations", "scheduled_operations",
                   "ongoing_operations", "completed_operations", "uncompleted_operations", "raw_ready_operations"]

        def ask(name):
            v = getattr(d, name)()
            if name == "current_time":
                return v
            if name == "ongoing_operations":
                return sorted(key(s.operation) for s in v)
            return sorted(key(o) for o in v)

        while True:
            states += 1
            answers = []
            for _ in range(2):
                order = list(queries)
                r.shuffle(order)
                order = order[:r.randint(3, len(order))] if _ == 0 else order
                answers.append({q: ask(q) for q in order})
            first, second = answers
            for q, v in first.items():
                if second[q] != v:
                    problems.append(["order-dependence", f"{q}() answered {v} and then {second[q]} in the same state"])
            a = second
            now = a["current_time"]
            if prev_now is not None and now < prev_now:
                went_back += 1
            prev_now = now
            sched = {key(s.operation): s for row in d.schedule.schedule for s in row}
            if set(a["scheduled_operations"]) | set(a["unscheduled_operations"]) != all_ops or \
                    set(a["scheduled_operations"]) & set(a["unscheduled_operations"]):
                problems.append(["partition", "scheduled / unscheduled do not partition the operations"])
            if sorted(a["ongoing_operations"] + a["completed_operations"]) != a["scheduled_operations"] \
                    or set(a["scheduled_operations"]) != set(sched):
                problems.append(["partition", f"ongoing {a['ongoing_operations']} / completed "
                                              f"{a['completed_operations']} do not partition the scheduled "
                                              f"operations {a['scheduled_operations']}"])
            if sorted(a["unscheduled_operations"] + a["ongoing_operations"]) != a["uncompleted_operations"]:
                problems.append(["partition", "uncompleted is not unscheduled plus ongoing"])
            done = sorted(k for k, s in sched.items() if s.end_time <= now)
            if done != a["completed_operations"]:
                problems.append(["completed", f"current_time() = {now}: completed_operations() = "
                                              f"{a['completed_operations']}, the scheduled operations that ended by "
                                              f"then are {done}"])
            raw = d.raw_ready_operations()
            if a["available_operations"] != sorted(key(o) for o in filt(d, list(raw))):
                problems.append(["available", "available_operations() is not the filter applied to the ready operations"])
            if problems or d.schedule.is_complete():
                break
            op = r.choice(raw)
            d.dispatch(op, r.choice(op.machines))
        return {"problems": problems[:3], "states": states, "clock_went_back": went_back}

    def model_requests(self, case, obs):
        if case.get("kind") == "user_filter":
            return []
        return super().model_requests(case, obs)

    def nontrivial(self, case, obs):
        if case.get("kind") == "user_filter":
            return obs["states"] >= 3
        nq = sum(1 for ev in case["events"] if ev[0] == 1)
        nd = sum(1 for ev, o in zip(case["events"], obs) if ev[0] == 0 and o and o[0] == 0)
        return nq >= 3 and nd >= 2

    nontrivial_rule = ("event scripts from the seeded generator; non-trivial = >= 2 accepted dispatches and >= 3 "
                       "queries; distinct = distinct SHA1 of the whole case")


CHECK = C05
