"""C07 — ready-operation filters prune soundly and never deadlock."""
from .framework import Failure
from .sessioncheck import SessionCheck

FN = ["dominated_operations", "non_immediate_machines", "non_idle_machines", "non_immediate_operations"]


class C07(SessionCheck):
    pid = "C07"
    inst_kwargs = dict(allow_empty_jobs=False, big=True, huge=True)
    gen_kwargs = dict(p_invalid=0.03, p_query=0.75, p_reset=0.02, p_snapshot=1.0, p_obs=0.0, p_sub=0.6)
    assumptions = ["valid instance: durations >= 0 (zero durations included), every operation has an eligible machine",
                   "filters are applied to lists of ready operations (any sub-list, any order) of the current state"]
    modelled_not_verified = [
        "modelled: the four functions of _ready_operation_filters.py with their helpers, "
        "create_composite_operation_filter, ready_operations_filter_factory, Dispatcher.available_operations / "
        "raw_ready_operations / min_start_time / start_time / earliest_start_time (coq/model/Filters.v, World.v)"]

    def extra_requests(self, case, obs):
        rows = self.rows_before(case, obs)
        items = []
        for i, (ev, o) in enumerate(zip(case["events"], obs)):
            if ev[0] == 1 and rows[i] is not None:
                if ev[1] == 16:
                    items.append([rows[i], [ev[2][0]], ev[2][1]])
                elif ev[1] == 1:
                    raw = self.raw_ready(case["spec"], rows[i])
                    items.append([rows[i], case["filters"], raw])
        return [(7, [case["spec"], items])]

    @staticmethod
    def raw_ready(spec, rows):
        cnt = [0] * len(spec)
        for row in rows:
            for x in row:
                cnt[x[0]] += 1
        return [[j, cnt[j]] for j in range(len(spec)) if cnt[j] < len(spec[j])]

    def judge(self, case, obs, outs):
        model_out, _cl, specf = outs
        fails = self.tie_failures(case, obs, model_out)
        rows = self.rows_before(case, obs)
        k = 0
        for i, (ev, o) in enumerate(zip(case["events"], obs)):
            if ev[0] != 1 or rows[i] is None or ev[1] not in (1, 16):
                continue
            want, sub_ok = specf[k]
            k += 1
            if ev[1] == 16:
                name, L = FN[ev[2][0]], ev[2][1]
            else:
                name, L = "available_operations" + str([FN[f] for f in case["filters"]]), self.raw_ready(case["spec"], rows[i])
            if not o or o[0] != 0:
                fails.append(Failure("oracle", "filter-raised", f"event #{i}: {name} raised on {L}", observed=o))
                continue
            got = o[1]
            if got != want:
                fails.append(Failure("oracle", "criterion:" + name.split("[")[0],
                                     f"event #{i}: {name} on {L} does not keep exactly the operations meeting the "
                                     f"documented criterion", expected=want, observed=got))
            if not self.is_sublist(got, L):
                fails.append(Failure("oracle", "sublist", f"event #{i}: {name} output {got} is not a sub-list of {L}"))
            if L and not got:
                fails.append(Failure("oracle", "nonempty", f"event #{i}: {name} returned [] for the non-empty input {L}"))
        # no deadlock: an incomplete schedule has an available operation (checked at snapshots through query 1 above),
        # and the generated histories, which only pick ready operations, complete.
        return fails

    @staticmethod
    def is_sublist(a, b):
        it = iter(b)
        return all(any(x == y for y in it) for x in a)

    def nontrivial(self, case, obs):
        nf = sum(1 for ev in case["events"] if ev[0] == 1 and ev[1] in (1, 16))
        return nf >= 3 and super().nontrivial(case, obs)

    nontrivial_rule = ("event scripts with many filter calls on random non-empty sub-lists (random order) of the ready "
                       "operations and available_operations() under random filter compositions; non-trivial = >= 3 such "
                       "calls, >= 2 jobs, >= 2 accepted dispatches; distinct = SHA1 of the case")


CHECK = C07
