#!/bin/bash
# Build the Coq development (full .vo build) and the extracted model runner.
# Usage: ./build.sh [clean]
set -e
cd "$(dirname "$0")/coq"
if [ "$1" = "clean" ]; then
  [ -f Makefile ] && make clean >/dev/null 2>&1 || true
  rm -rf _run Makefile Makefile.conf .*.aux */.*.aux model.ml model.mli
fi
[ -f Makefile ] && [ Makefile -nt _CoqProject ] || coq_makefile -f _CoqProject -o Makefile >/dev/null
set +e
timeout 3000 make -j"${VERIF_JOBS:-12}" > .make.log 2>&1
mrc=$?
set -e
grep -v '^COQDEP\|^COQC\|^make\[' .make.log || true
if [ $mrc -ne 0 ] || [ ! -f extraction/Extract.vo ]; then echo "BUILD-FAILED: coq (make exit $mrc)"; exit 2; fi
mkdir -p _run
if [ ! -x _run/runner ] || [ model.ml -nt _run/runner ] || [ extraction/driver.ml -nt _run/runner ]; then
  cp model.ml model.mli extraction/driver.ml _run/
  (cd _run && ocamlfind ocamlopt -O2 -w -a model.mli model.ml driver.ml -o runner 2>&1 | grep -v "^$" || true)
fi
test -x _run/runner || { echo "BUILD-FAILED: runner"; exit 2; }
echo "BUILD-OK"
